package rules

// Guard normalisation ("decision tables"). A guard is read as a function of abstract atoms:
//   - integer terms (fields, parameters, len(x), enum-typed fields) ranging over a small domain,
//   - boolean atoms (boolean variables, X.Equal(Y) calls, unknown boolean calls),
// through parentheses, !, &&, ||, integer comparison and + - * / %, and through single-return
// predicate helpers of the same package (inlined with their receiver bound). The path condition of a
// statement is the conjunction of the block-ending conditions (and switch case tests) that guard it
// in the CFG. Two guards are the same decision iff they agree on every assignment of the atoms.
// Nothing of /repo is executed: this evaluates condition *syntax* over an abstract domain.

import (
	"fmt"
	"go/ast"
	"go/constant"
	"go/token"
	"go/types"
	"os"
	"sort"
	"strings"

	"golang.org/x/tools/go/cfg"

	"pgoverif/checker/an"
)

type dtEnv struct {
	ints  map[string]int64
	bools map[string]bool
}

type dtFrame struct {
	info  *types.Info
	subst map[types.Object]dtBound // callee receiver/params bound to caller expressions
	recv  types.Object             // receiver of the outermost function (printed as $)
}

type dtBound struct {
	expr  ast.Expr
	frame *dtFrame
}

type dtEval struct {
	e *Env
	// collected atoms
	intTerms  map[string]types.Type
	boolAtoms map[string]bool
	unknown   []string
	// occurrence numbering (opt-in): the same text at different source positions is a different atom
	occ     bool
	occSeen map[string][]token.Pos
	// bodies: source ranges of the function's bodies (declaration and literals); occurrences are ranked within the
	// innermost body that contains them, so that an unrelated literal (a deferred logger) does not shift the numbering
	bodies [][2]token.Pos
	// root: body of the function the row is about (for single-definition aliases of receiver fields)
	root      ast.Node
	freshMemo map[[2]token.Pos]bool
	defMemo   map[types.Object]ast.Expr
}

func newDtEval(e *Env) *dtEval {
	return &dtEval{e: e, intTerms: map[string]types.Type{}, boolAtoms: map[string]bool{}, occSeen: map[string][]token.Pos{}, freshMemo: map[[2]token.Pos]bool{}, defMemo: map[types.Object]ast.Expr{}}
}

// canon renders an expression with the outermost receiver as "$" and substituted names expanded.
func (ev *dtEval) canon(x ast.Expr, fr *dtFrame) string {
	x = an.Unparen(x)
	switch v := x.(type) {
	case *ast.Ident:
		o := fr.info.ObjectOf(v)
		if b, ok := fr.subst[o]; ok {
			return ev.canon(b.expr, b.frame)
		}
		if o != nil && o == fr.recv {
			return "$"
		}
		// a local that is nothing but a name for a field of the receiver (single definition, `x := recv.f.g`) reads as that field
		if ev.root != nil && o != nil && len(fr.subst) == 0 {
			d, seen := ev.defMemo[o]
			if !seen {
				d = nil
				if _, isVar := o.(*types.Var); isVar && o.Pos() >= ev.root.Pos() && o.Pos() < ev.root.End() {
					if sd := an.SingleDef(fr.info, ev.root, o); sd != nil && ev.isRecvField(sd, fr) {
						d = sd
					}
				}
				ev.defMemo[o] = d
			}
			if d != nil && ev.aliasFresh(d, v, fr) {
				return ev.canon(d, fr)
			}
		}
		return v.Name
	case *ast.SelectorExpr:
		return ev.canon(v.X, fr) + "." + v.Sel.Name
	case *ast.StarExpr:
		return "*" + ev.canon(v.X, fr)
	case *ast.CallExpr:
		var args []string
		for _, a := range v.Args {
			args = append(args, ev.canon(a, fr))
		}
		return ev.canon(v.Fun, fr) + "(" + strings.Join(args, ",") + ")"
	case *ast.IndexExpr:
		return ev.canon(v.X, fr) + "[" + ev.canon(v.Index, fr) + "]"
	case *ast.BasicLit:
		return v.Value
	case *ast.BinaryExpr:
		return ev.canon(v.X, fr) + v.Op.String() + ev.canon(v.Y, fr)
	case *ast.UnaryExpr:
		return v.Op.String() + ev.canon(v.X, fr)
	}
	return an.ExprString(x)
}

// isRecvField: x is a selector chain of fields rooted at the outermost receiver.
func (ev *dtEval) isRecvField(x ast.Expr, fr *dtFrame) bool {
	x = an.Unparen(x)
	sel, ok := x.(*ast.SelectorExpr)
	if !ok || an.SelectedField(fr.info, sel) == nil {
		return false
	}
	for {
		switch v := an.Unparen(sel.X).(type) {
		case *ast.Ident:
			return fr.recv != nil && fr.info.ObjectOf(v) == fr.recv
		case *ast.SelectorExpr:
			if an.SelectedField(fr.info, v) == nil {
				return false
			}
			sel = v
			continue
		}
		return false
	}
}

// aliasFresh: the alias is defined in the init clause of the very if / switch statement whose condition uses it
// (`if x := recv.f; x != nil`), so it is read at the same instant the field would be. Anything looser is unsound here:
// a local copy of a field is also how the code remembers an earlier value to compare the field with later (2PC's
// `originalVersion := res.version`), possibly across a release of the mutex.
func (ev *dtEval) aliasFresh(def ast.Expr, use *ast.Ident, fr *dtFrame) bool {
	key := [2]token.Pos{def.Pos(), use.Pos()}
	if v, ok := ev.freshMemo[key]; ok {
		return v
	}
	res := false
	ast.Inspect(ev.root, func(m ast.Node) bool {
		var init ast.Stmt
		var cond ast.Node
		switch x := m.(type) {
		case *ast.IfStmt:
			init, cond = x.Init, x.Cond
		case *ast.SwitchStmt:
			init, cond = x.Init, x.Tag
		}
		if init != nil && cond != nil && init.Pos() <= def.Pos() && def.End() <= init.End() && cond.Pos() <= use.Pos() && use.End() <= cond.End() {
			res = true
		}
		return true
	})
	ev.freshMemo[key] = res
	return res
}

// atomName: with occurrence numbering, base names seen at several positions get #k (k = rank of the position).
func (ev *dtEval) atomName(base string, pos token.Pos, collecting bool) string {
	if !ev.occ {
		return base
	}
	if os.Getenv("DT_DEBUG") != "" {
		_ = os.Getenv
	}
	// innermost body containing pos
	lo, hi := token.NoPos, token.NoPos
	for _, b := range ev.bodies {
		if b[0] <= pos && pos < b[1] && (lo == token.NoPos || (b[0] >= lo && b[1] <= hi)) {
			lo, hi = b[0], b[1]
		}
	}
	base0 := base
	base = fmt.Sprintf("%s@%d", base0, int(lo)) // internal key; the visible name stays base0#k
	defer func() { _ = base0 }()
	ps := ev.occSeen[base]
	found := false
	for _, p := range ps {
		if p == pos {
			found = true
		}
	}
	if !found && collecting {
		ps = append(ps, pos)
		sort.Slice(ps, func(i, j int) bool { return ps[i] < ps[j] })
		ev.occSeen[base] = ps
	}
	// positions of this body that are nested literals' do not count: they belong to their own (inner) body
	if len(ps) <= 1 {
		return base0
	}
	for i, p := range ps {
		if p == pos {
			return fmt.Sprintf("%s#%d", base0, i+1)
		}
	}
	return base0
}

func isIntLike(t types.Type) bool {
	if t == nil {
		return false
	}
	b, ok := t.Underlying().(*types.Basic)
	return ok && b.Info()&types.IsInteger != 0
}

func (ev *dtEval) evalInt(x ast.Expr, fr *dtFrame, env *dtEnv) (int64, error) {
	x = an.Unparen(x)
	if tv, ok := fr.info.Types[x]; ok && tv.Value != nil {
		if v, ok := constant.Int64Val(constant.ToInt(tv.Value)); ok {
			return v, nil
		}
	}
	switch v := x.(type) {
	case *ast.Ident:
		if b, ok := fr.subst[fr.info.ObjectOf(v)]; ok {
			return ev.evalInt(b.expr, b.frame, env)
		}
	case *ast.BinaryExpr:
		a, err := ev.evalInt(v.X, fr, env)
		if err != nil {
			return 0, err
		}
		b, err := ev.evalInt(v.Y, fr, env)
		if err != nil {
			return 0, err
		}
		switch v.Op {
		case token.ADD:
			return a + b, nil
		case token.SUB:
			return a - b, nil
		case token.MUL:
			return a * b, nil
		case token.QUO:
			if b == 0 {
				return 0, nil
			}
			return a / b, nil
		case token.REM:
			if b == 0 {
				return 0, nil
			}
			return a % b, nil
		}
		return 0, fmt.Errorf("unsupported integer operator %s", v.Op)
	case *ast.CallExpr:
		// conversions int(x)
		if tv, ok := fr.info.Types[v.Fun]; ok && tv.IsType() && len(v.Args) == 1 {
			return ev.evalInt(v.Args[0], fr, env)
		}
	}
	name := ev.atomName(ev.canon(x, fr), x.Pos(), env == nil)
	if env == nil {
		ev.intTerms[name] = fr.info.TypeOf(x)
		return 0, nil
	}
	val, ok := env.ints[name]
	if !ok {
		return 0, fmt.Errorf("no value for integer term %s", name)
	}
	return val, nil
}

func (ev *dtEval) evalBool(x ast.Expr, fr *dtFrame, env *dtEnv) (bool, error) {
	x = an.Unparen(x)
	if tv, ok := fr.info.Types[x]; ok && tv.Value != nil && tv.Value.Kind() == constant.Bool {
		return constant.BoolVal(tv.Value), nil
	}
	switch v := x.(type) {
	case *ast.UnaryExpr:
		if v.Op == token.NOT {
			b, err := ev.evalBool(v.X, fr, env)
			return !b, err
		}
	case *ast.BinaryExpr:
		switch v.Op {
		case token.LAND, token.LOR:
			a, err := ev.evalBool(v.X, fr, env)
			if err != nil {
				return false, err
			}
			b, err := ev.evalBool(v.Y, fr, env)
			if err != nil {
				return false, err
			}
			if v.Op == token.LAND {
				return a && b, nil
			}
			return a || b, nil
		case token.EQL, token.NEQ, token.LSS, token.LEQ, token.GTR, token.GEQ:
			tx, ty := fr.info.TypeOf(v.X), fr.info.TypeOf(v.Y)
			if isIntLike(tx) && isIntLike(ty) {
				a, err := ev.evalInt(v.X, fr, env)
				if err != nil {
					return false, err
				}
				b, err := ev.evalInt(v.Y, fr, env)
				if err != nil {
					return false, err
				}
				switch v.Op {
				case token.EQL:
					return a == b, nil
				case token.NEQ:
					return a != b, nil
				case token.LSS:
					return a < b, nil
				case token.LEQ:
					return a <= b, nil
				case token.GTR:
					return a > b, nil
				default:
					return a >= b, nil
				}
			}
			// boolean == / != boolean
			if bx, ok := tx.Underlying().(*types.Basic); ok && bx.Info()&types.IsBoolean != 0 && (v.Op == token.EQL || v.Op == token.NEQ) {
				a, err := ev.evalBool(v.X, fr, env)
				if err != nil {
					return false, err
				}
				b, err := ev.evalBool(v.Y, fr, env)
				if err != nil {
					return false, err
				}
				if v.Op == token.EQL {
					return a == b, nil
				}
				return a != b, nil
			}
			// nil tests and other comparisons: boolean atom "X==Y" (normalised to ==)
			// equality is symmetric: the operands are named in a fixed order
			lx, ly := ev.canon(v.X, fr), ev.canon(v.Y, fr)
			if ly < lx && ly != "nil" {
				lx, ly = ly, lx
			}
			name := ev.atomName(lx+"=="+ly, v.Pos(), env == nil)
			if (v.Op == token.EQL || v.Op == token.NEQ) && (tx != nil) {
				if env == nil {
					ev.boolAtoms[name] = true
					return false, nil
				}
				val, ok := env.bools[name]
				if !ok {
					return false, fmt.Errorf("no value for atom %s", name)
				}
				if v.Op == token.NEQ {
					return !val, nil
				}
				return val, nil
			}
		}
	case *ast.Ident:
		if b, ok := fr.subst[fr.info.ObjectOf(v)]; ok {
			return ev.evalBool(b.expr, b.frame, env)
		}
	case *ast.CallExpr:
		// single-return predicate helper of the workspace: inline
		if f := an.CalleeFunc(fr.info, v); f != nil {
			if callee := ev.e.Ix.FuncOf(f); callee != nil {
				if r := singleReturn(callee); r != nil && callee.Decl != nil {
					nf := &dtFrame{info: callee.Pkg.Info, subst: map[types.Object]dtBound{}, recv: nil}
					if callee.Decl.Recv != nil && len(callee.Decl.Recv.List) == 1 && len(callee.Decl.Recv.List[0].Names) == 1 {
						if sel, ok := an.Unparen(v.Fun).(*ast.SelectorExpr); ok {
							nf.subst[callee.Pkg.Info.Defs[callee.Decl.Recv.List[0].Names[0]]] = dtBound{sel.X, fr}
						}
					}
					i := 0
					for _, fl := range callee.Decl.Type.Params.List {
						for _, nm := range fl.Names {
							if i < len(v.Args) {
								nf.subst[callee.Pkg.Info.Defs[nm]] = dtBound{v.Args[i], fr}
							}
							i++
						}
					}
					return ev.evalBool(r, nf, env)
				}
			}
			// symmetric Equal
			if f.Name() == "Equal" && len(v.Args) == 1 {
				if sel, ok := an.Unparen(v.Fun).(*ast.SelectorExpr); ok {
					a, b := ev.canon(sel.X, fr), ev.canon(v.Args[0], fr)
					if b < a {
						a, b = b, a
					}
					name := "Equal(" + a + "," + b + ")"
					if env == nil {
						ev.boolAtoms[name] = true
						return false, nil
					}
					val, ok := env.bools[name]
					if !ok {
						return false, fmt.Errorf("no value for atom %s", name)
					}
					return val, nil
				}
			}
		}
	}
	// anything else boolean: an atom named by its canonical text
	name := ev.atomName(ev.canon(x, fr), x.Pos(), env == nil)
	if env == nil {
		ev.boolAtoms[name] = true
		return false, nil
	}
	val, ok := env.bools[name]
	if !ok {
		return false, fmt.Errorf("no value for atom %s", name)
	}
	return val, nil
}

// pathGuards returns the (condition, outcome) pairs guarding node n in g; switch case tests are rendered as tag == case.
type dtGuard struct {
	cond    ast.Expr
	tag     ast.Expr // non-nil for switch case tests
	outcome bool
	fr      *dtFrame // frame the guard is read in (nil: the frame of the function the row is about)
	// loopExit: the guard is the exit edge of a loop header passed on the way to the effect. skip: it mentions no atom the
	// row declares, so it is context (the loop ran its course), not part of the decision.
	loopExit bool
	skip     bool
}

func pathGuards(g *an.Graph, n ast.Node) []dtGuard {
	var out []dtGuard
	for _, blk := range g.CFG.Blocks {
		cd, tag := g.Cond(blk)
		if cd == nil {
			continue
		}
		for _, b := range []bool{true, false} {
			if g.GuardedBy(n, cd, b) {
				out = append(out, dtGuard{cond: cd, tag: tag, outcome: b})
			}
		}
	}
	return out
}

// allPaths enumerates the acyclic paths from the entry block to the block of atom n and returns, for each, the branch
// outcomes taken (conditions evaluated after n in n's own block are not included). ok is false if there are too many.
func allPaths(g *an.Graph, n ast.Node) (paths [][]dtGuard, ok bool) {
	p, found := g.PointOf(n)
	if !found {
		return nil, false
	}
	target := p.Block
	onPath := map[int32]bool{}
	var cur []dtGuard
	limit := 20000
	var walk func(b *cfg.Block) bool
	walk = func(b *cfg.Block) bool {
		if int(b.Index) == target {
			paths = append(paths, append([]dtGuard(nil), cur...))
			return len(paths) < limit
		}
		if onPath[b.Index] {
			return true
		}
		onPath[b.Index] = true
		defer func() { onPath[b.Index] = false }()
		cd, tag := g.Cond(b)
		for i, s := range b.Succs {
			if cd != nil && len(b.Succs) == 2 {
				cur = append(cur, dtGuard{cond: cd, tag: tag, outcome: i == 0, loopExit: i == 1 && b.Kind == cfg.KindForLoop})
			}
			cont := walk(s)
			if cd != nil && len(b.Succs) == 2 {
				cur = cur[:len(cur)-1]
			}
			if !cont {
				return false
			}
		}
		return true
	}
	if len(g.CFG.Blocks) == 0 {
		return nil, false
	}
	ok = walk(g.CFG.Blocks[0])
	return paths, ok
}

func (ev *dtEval) evalGuards(gs []dtGuard, fr0 *dtFrame, env *dtEnv) (bool, error) {
	for _, gd := range gs {
		var v bool
		var err error
		if gd.skip {
			continue
		}
		fr := fr0
		if gd.fr != nil {
			fr = gd.fr
		}
		if gd.tag != nil && !isIntLike(fr.info.TypeOf(gd.tag)) {
			// switch over a non-integer (an error value, a string): the case test is the atom tag==case
			lx, ly := ev.canon(gd.tag, fr), ev.canon(gd.cond, fr)
			if ly < lx && ly != "nil" {
				lx, ly = ly, lx
			}
			name := ev.atomName(lx+"=="+ly, gd.cond.Pos(), env == nil)
			if env == nil {
				ev.boolAtoms[name] = true
				continue
			}
			val, ok := env.bools[name]
			if !ok {
				return false, fmt.Errorf("no value for atom %s", name)
			}
			v = val
		} else if gd.tag != nil {
			a, e1 := ev.evalInt(gd.tag, fr, env)
			b, e2 := ev.evalInt(gd.cond, fr, env)
			if e1 != nil {
				return false, e1
			}
			if e2 != nil {
				return false, e2
			}
			v = a == b
		} else {
			v, err = ev.evalBool(gd.cond, fr, env)
			if err != nil {
				return false, err
			}
		}
		if v != gd.outcome {
			return false, nil
		}
	}
	return true, nil
}

// enumerate calls f for every assignment of the collected atoms; integer terms range over enum constants of
// their type when the type is a named integer type with constants in pkg, else over {0,1,2,3}.
func (ev *dtEval) enumerate(pkg *types.Package, f func(env *dtEnv) bool) {
	var inames, bnames []string
	for k := range ev.intTerms {
		inames = append(inames, k)
	}
	for k := range ev.boolAtoms {
		bnames = append(bnames, k)
	}
	sort.Strings(inames)
	sort.Strings(bnames)
	domains := make([][]int64, len(inames))
	for i, n := range inames {
		t := ev.intTerms[n]
		var dom []int64
		if named, ok := t.(*types.Named); ok && named.Obj().Pkg() == pkg {
			sc := pkg.Scope()
			for _, nm := range sc.Names() {
				if cst, ok := sc.Lookup(nm).(*types.Const); ok && types.Identical(cst.Type(), t) {
					if v, ok := constant.Int64Val(constant.ToInt(cst.Val())); ok {
						dom = append(dom, v)
					}
				}
			}
		}
		if len(dom) == 0 {
			dom = []int64{-1, 0, 1, 2, 3}
		}
		domains[i] = dom
	}
	env := &dtEnv{ints: map[string]int64{}, bools: map[string]bool{}}
	var rec func(i int) bool
	rec = func(i int) bool {
		if i < len(inames) {
			for _, v := range domains[i] {
				env.ints[inames[i]] = v
				if !rec(i + 1) {
					return false
				}
			}
			return true
		}
		j := i - len(inames)
		if j < len(bnames) {
			for _, v := range []bool{false, true} {
				env.bools[bnames[j]] = v
				if !rec(i + 1) {
					return false
				}
			}
			return true
		}
		return f(env)
	}
	rec(0)
}

func (env *dtEnv) String() string {
	var parts []string
	for k, v := range env.ints {
		parts = append(parts, fmt.Sprintf("%s=%d", k, v))
	}
	for k, v := range env.bools {
		parts = append(parts, fmt.Sprintf("%s=%v", k, v))
	}
	sort.Strings(parts)
	return strings.Join(parts, " ")
}
