package rules

// Guard normalisation ("decision tables"). A guard is read as a function of abstract atoms:
//   - integer terms (fields, parameters, len(x), enum-typed fields) ranging over a small domain,
//   - boolean atoms (boolean variables, X.Equal(Y) calls, unknown boolean calls),
// through parentheses, !, &&, ||, integer comparison and + - * / %, and through single-return
// predicate helpers of the same package (inlined with their receiver bound). The path condition of a
// statement is the conjunction of the block-ending conditions (and switch case tests) that guard it
// in the CFG. Two guards are the same decision iff they agree on every assignment of the atoms.
// Nothing of /repo is executed: this evaluates condition *syntax* over an abstract domain.

import (
	"fmt"
	"go/ast"
	"go/constant"
	"go/token"
	"go/types"
	"os"
	"sort"
	"strconv"
	"strings"

	"golang.org/x/tools/go/cfg"

	"pgoverif/checker/an"
)

type dtEnv struct {
	ints  map[string]int64
	bools map[string]bool
	// store: under dtTrack, the values integer locals were assigned along the path being evaluated
	store map[types.Object]int64
	// sym: under dtTrack, the expression each other local was last assigned along the path
	sym map[types.Object]dtBound
	// flags: under dtTrack, the values boolean locals were assigned along the path
	flags map[types.Object]bool
}

type dtFrame struct {
	info  *types.Info
	subst map[types.Object]dtBound // callee receiver/params bound to caller expressions
	recv  types.Object             // receiver of the outermost function (printed as $)
}

type dtBound struct {
	expr  ast.Expr
	frame *dtFrame
}

type dtEval struct {
	predMemo map[*an.Func][][]dtGuard // predicate functions with several returns, as guarded paths
	e        *Env
	// collected atoms
	intTerms  map[string]types.Type
	boolAtoms map[string]bool
	unknown   []string
	// occurrence numbering (opt-in): the same text at different source positions is a different atom
	occ     bool
	occSeen map[string][]token.Pos
	// bodies: source ranges of the function's bodies (declaration and literals); occurrences are ranked within the
	// innermost body that contains them, so that an unrelated literal (a deferred logger) does not shift the numbering
	bodies [][2]token.Pos
	// root: body of the function the row is about (for single-definition aliases of receiver fields)
	root      ast.Node
	keep      map[string]bool // identifiers the row's declared atoms mention: never expanded
	freshMemo map[[2]token.Pos]bool
	constMemo map[types.Object]ast.Expr
	defMemo   map[types.Object]ast.Expr
	litDom    []int64
}

func newDtEval(e *Env) *dtEval {
	return &dtEval{e: e, intTerms: map[string]types.Type{}, boolAtoms: map[string]bool{}, occSeen: map[string][]token.Pos{}, freshMemo: map[[2]token.Pos]bool{}, defMemo: map[types.Object]ast.Expr{}}
}

// canon renders an expression with the outermost receiver as "$" and substituted names expanded.
func (ev *dtEval) canon(x ast.Expr, fr *dtFrame) string {
	x = an.Unparen(x)
	switch v := x.(type) {
	case *ast.Ident:
		o := fr.info.ObjectOf(v)
		if b, ok := fr.subst[o]; ok {
			return ev.canon(b.expr, b.frame)
		}
		if o != nil && o == fr.recv {
			return "$"
		}
		if init := ev.pkgConst(o); init != nil && !ev.keep[v.Name] {
			return ev.canon(init, fr)
		}
		if d, paren := ev.aliasOf(v, fr); d != nil {
			if paren {
				switch an.Unparen(d).(type) {
				case *ast.Ident, *ast.SelectorExpr, *ast.IndexExpr, *ast.CallExpr, *ast.BasicLit:
					// a primary expression needs no grouping: `e := $.xs[i]; e.f` reads `$.xs[i].f`
					return ev.canon(d, fr)
				}
				return "(" + ev.canon(d, fr) + ")"
			}
			return ev.canon(d, fr)
		}
		return v.Name
	case *ast.SelectorExpr:
		if id, ok := an.Unparen(v.X).(*ast.Ident); ok {
			if tgt := ev.ptrAliasOf(id, fr); tgt != nil {
				return ev.canon(tgt, fr) + "." + v.Sel.Name
			}
		}
		return ev.canon(v.X, fr) + "." + v.Sel.Name
	case *ast.StarExpr:
		if id, ok := an.Unparen(v.X).(*ast.Ident); ok {
			if tgt := ev.ptrAliasOf(id, fr); tgt != nil {
				return ev.canon(tgt, fr)
			}
		}
		return "*" + ev.canon(v.X, fr)
	case *ast.CallExpr:
		var args []string
		for _, a := range v.Args {
			args = append(args, ev.canon(a, fr))
		}
		if id, isId := an.Unparen(v.Fun).(*ast.Ident); isId && isRecClosure(fr.info, id) {
			// a closure calling itself (or being started): its name is irrelevant
			return "$rec(" + strings.Join(args, ",") + ")"
		}
		return ev.canon(v.Fun, fr) + "(" + strings.Join(args, ",") + ")"
	case *ast.IndexExpr:
		return ev.canon(v.X, fr) + "[" + ev.canon(v.Index, fr) + "]"
	case *ast.BasicLit:
		return v.Value
	case *ast.BinaryExpr:
		return ev.canon(v.X, fr) + v.Op.String() + ev.canon(v.Y, fr)
	case *ast.UnaryExpr:
		return v.Op.String() + ev.canon(v.X, fr)
	}
	return an.ExprString(x)
}

// isParam: o is a parameter of some function (a predicate handed in, `pred`), not a local closure.
func (ev *dtEval) isParam(o types.Object) bool {
	v, ok := o.(*types.Var)
	if !ok {
		return false
	}
	if ev.root == nil {
		return false
	}
	// parameters are declared outside the body of the function the row is about (or in a literal's parameter list)
	return o.Pos() < ev.root.Pos() || o.Pos() >= ev.root.End() || v.Parent() == nil
}

// pkgConst: o is a package-level variable of a workspace package that has an initialiser and that nothing assigns or takes
// the address of (a constant a maintainer hoisted out of a function): its initialiser.
func (ev *dtEval) pkgConst(o types.Object) ast.Expr {
	v, ok := o.(*types.Var)
	if !ok || v.IsField() || v.Pkg() == nil || v.Parent() != v.Pkg().Scope() {
		return nil
	}
	if ev.constMemo == nil {
		ev.constMemo = map[types.Object]ast.Expr{}
	}
	if init, seen := ev.constMemo[o]; seen {
		return init
	}
	ev.constMemo[o] = nil
	pk := ev.e.Ix.PkgOf(v.Pkg())
	if pk == nil {
		return nil
	}
	var init ast.Expr
	for _, f := range pk.Files {
		for _, d := range f.Decls {
			gd, isGen := d.(*ast.GenDecl)
			if !isGen || gd.Tok != token.VAR {
				continue
			}
			for _, sp := range gd.Specs {
				vs, isVS := sp.(*ast.ValueSpec)
				if !isVS || len(vs.Names) != len(vs.Values) {
					continue
				}
				for i, nm := range vs.Names {
					if pk.Info.Defs[nm] == o {
						init = vs.Values[i]
					}
				}
			}
		}
	}
	if init == nil {
		return nil
	}
	// only constructor calls of the value library (tla.MakeString("cmd"), tla.MakeNumber(1)): nothing stateful
	call, isCall := an.Unparen(init).(*ast.CallExpr)
	if !isCall {
		return nil
	}
	if fn := an.CalleeFunc(pk.Info, call); fn == nil || fn.Pkg() == nil || fn.Pkg().Path() != an.PkgTLA || !strings.HasPrefix(fn.Name(), "Make") {
		return nil
	}
	assigned := false
	for _, f := range pk.Files {
		ast.Inspect(f, func(m ast.Node) bool {
			switch x := m.(type) {
			case *ast.AssignStmt:
				for _, l := range x.Lhs {
					if id, isId := an.Unparen(l).(*ast.Ident); isId && pk.Info.Uses[id] == o {
						assigned = true
					}
				}
			case *ast.UnaryExpr:
				if id, isId := an.Unparen(x.X).(*ast.Ident); isId && x.Op == token.AND && pk.Info.Uses[id] == o {
					assigned = true
				}
			}
			return !assigned
		})
	}
	if assigned {
		return nil
	}
	ev.constMemo[o] = init
	return init
}

// isRecvField: x is a selector chain of fields rooted at the outermost receiver.
func (ev *dtEval) isRecvField(x ast.Expr, fr *dtFrame) bool {
	x = an.Unparen(x)
	sel, ok := x.(*ast.SelectorExpr)
	if !ok || an.SelectedField(fr.info, sel) == nil {
		return false
	}
	for {
		switch v := an.Unparen(sel.X).(type) {
		case *ast.Ident:
			return fr.recv != nil && fr.info.ObjectOf(v) == fr.recv
		case *ast.SelectorExpr:
			if an.SelectedField(fr.info, v) == nil {
				return false
			}
			sel = v
			continue
		}
		return false
	}
}

// aliasFresh: the alias is defined in the init clause of the very if / switch statement whose condition uses it
// (`if x := recv.f; x != nil`), so it is read at the same instant the field would be. Anything looser is unsound here:
// a local copy of a field is also how the code remembers an earlier value to compare the field with later (2PC's
// `originalVersion := res.version`), possibly across a release of the mutex.
func (ev *dtEval) aliasFresh(def ast.Expr, use *ast.Ident, fr *dtFrame) bool {
	key := [2]token.Pos{def.Pos(), use.Pos()}
	if v, ok := ev.freshMemo[key]; ok {
		return v
	}
	res := false
	ast.Inspect(ev.root, func(m ast.Node) bool {
		var init ast.Stmt
		var cond ast.Node
		switch x := m.(type) {
		case *ast.IfStmt:
			init, cond = x.Init, x.Cond
		case *ast.SwitchStmt:
			init, cond = x.Init, x.Tag
			if x.Tag == nil && init != nil && init.Pos() <= def.Pos() && def.End() <= init.End() {
				// a condition switch: the conditions are the case expressions
				for _, cs := range x.Body.List {
					for _, ce := range cs.(*ast.CaseClause).List {
						if ce.Pos() <= use.Pos() && use.End() <= ce.End() {
							res = true
						}
					}
				}
			}
		}
		if init != nil && cond != nil && init.Pos() <= def.Pos() && def.End() <= init.End() && cond.Pos() <= use.Pos() && use.End() <= cond.End() {
			res = true
		}
		return true
	})
	ev.freshMemo[key] = res
	return res
}

// pureAlias: the single-definition local x names a sub-expression that was merely given a name (`cmd := value.ApplyFunction(k)`,
// `inRange := 0 <= i && i < n`): its defining expression mentions no field of the receiver, only parameters and other
// single-definition locals, so it denotes the same thing wherever x is used. (Expressions over receiver fields are not
// resolved this way: such a copy is also how the code remembers an earlier state.)
func (ev *dtEval) pureAlias(def ast.Expr, use *ast.Ident, fr *dtFrame) bool {
	key := [2]token.Pos{def.Pos(), -use.Pos()}
	if v, ok := ev.freshMemo[key]; ok {
		return v
	}
	ok := def.Pos() < use.Pos()
	ast.Inspect(def, func(m ast.Node) bool {
		switch x := m.(type) {
		case *ast.FuncLit:
			ok = false
			return false
		case *ast.UnaryExpr:
			if x.Op == token.ARROW || x.Op == token.AND {
				ok = false
			}
		case *ast.Ident:
			o := fr.info.Uses[x]
			if o == nil {
				return true
			}
			if o == fr.recv {
				ok = false
				return false
			}
			if vv, isVar := o.(*types.Var); isVar && !vv.IsField() && vv.Pkg() != nil && o.Pos() >= ev.root.Pos() && o.Pos() < ev.root.End() {
				// a local of the function: it must itself never be reassigned
				if an.SingleDef(fr.info, ev.root, o) == nil {
					ok = false
				}
			}
		}
		return true
	})
	ev.freshMemo[key] = ok
	return ok
}

// atomName: with occurrence numbering, base names seen at several positions get #k (k = rank of the position).
func (ev *dtEval) atomName(base string, pos token.Pos, collecting bool) string {
	if !ev.occ {
		return base
	}
	if os.Getenv("DT_DEBUG") != "" {
		_ = os.Getenv
	}
	// innermost body containing pos
	lo, hi := token.NoPos, token.NoPos
	for _, b := range ev.bodies {
		if b[0] <= pos && pos < b[1] && (lo == token.NoPos || (b[0] >= lo && b[1] <= hi)) {
			lo, hi = b[0], b[1]
		}
	}
	base0 := base
	base = fmt.Sprintf("%s@%d", base0, int(lo)) // internal key; the visible name stays base0#k
	defer func() { _ = base0 }()
	ps := ev.occSeen[base]
	found := false
	for _, p := range ps {
		if p == pos {
			found = true
		}
	}
	if !found && collecting {
		ps = append(ps, pos)
		sort.Slice(ps, func(i, j int) bool { return ps[i] < ps[j] })
		ev.occSeen[base] = ps
	}
	// positions of this body that are nested literals' do not count: they belong to their own (inner) body
	if len(ps) <= 1 {
		return base0
	}
	for i, p := range ps {
		if p == pos {
			return fmt.Sprintf("%s#%d", base0, i+1)
		}
	}
	return base0
}

func isIntLike(t types.Type) bool {
	if t == nil {
		return false
	}
	b, ok := t.Underlying().(*types.Basic)
	return ok && b.Info()&types.IsInteger != 0
}

func (ev *dtEval) evalInt(x ast.Expr, fr *dtFrame, env *dtEnv) (int64, error) {
	x = an.Unparen(x)
	if tv, ok := fr.info.Types[x]; ok && tv.Value != nil {
		if v, ok := constant.Int64Val(constant.ToInt(tv.Value)); ok {
			return v, nil
		}
	}
	switch v := x.(type) {
	case *ast.Ident:
		if b, ok := fr.subst[fr.info.ObjectOf(v)]; ok {
			return ev.evalInt(b.expr, b.frame, env)
		}
		if env != nil && env.store != nil {
			if val, ok := env.store[fr.info.ObjectOf(v)]; ok {
				return val, nil
			}
		}
		if d, _ := ev.aliasOf(v, fr); d != nil {
			return ev.evalInt(d, fr, env)
		}
	case *ast.BinaryExpr:
		a, err := ev.evalInt(v.X, fr, env)
		if err != nil {
			return 0, err
		}
		b, err := ev.evalInt(v.Y, fr, env)
		if err != nil {
			return 0, err
		}
		switch v.Op {
		case token.ADD:
			return a + b, nil
		case token.SUB:
			return a - b, nil
		case token.MUL:
			return a * b, nil
		case token.QUO:
			if b == 0 {
				return 0, nil
			}
			return a / b, nil
		case token.REM:
			if b == 0 {
				return 0, nil
			}
			return a % b, nil
		}
		return 0, fmt.Errorf("unsupported integer operator %s", v.Op)
	case *ast.CallExpr:
		// conversions int(x)
		if tv, ok := fr.info.Types[v.Fun]; ok && tv.IsType() && len(v.Args) == 1 {
			return ev.evalInt(v.Args[0], fr, env)
		}
	}
	name := ev.atomName(ev.canon(x, fr), x.Pos(), env == nil)
	if env == nil {
		ev.intTerms[name] = fr.info.TypeOf(x)
		return 0, nil
	}
	val, ok := env.ints[name]
	if !ok {
		return 0, fmt.Errorf("no value for integer term %s", name)
	}
	return val, nil
}

func (ev *dtEval) evalBool(x ast.Expr, fr *dtFrame, env *dtEnv) (bool, error) {
	x = an.Unparen(x)
	if tv, ok := fr.info.Types[x]; ok && tv.Value != nil && tv.Value.Kind() == constant.Bool {
		return constant.BoolVal(tv.Value), nil
	}
	switch v := x.(type) {
	case *ast.UnaryExpr:
		if v.Op == token.NOT {
			b, err := ev.evalBool(v.X, fr, env)
			return !b, err
		}
	case *ast.BinaryExpr:
		switch v.Op {
		case token.LAND, token.LOR:
			a, err := ev.evalBool(v.X, fr, env)
			if err != nil {
				return false, err
			}
			b, err := ev.evalBool(v.Y, fr, env)
			if err != nil {
				return false, err
			}
			if v.Op == token.LAND {
				return a && b, nil
			}
			return a || b, nil
		case token.EQL, token.NEQ, token.LSS, token.LEQ, token.GTR, token.GEQ:
			tx, ty := fr.info.TypeOf(v.X), fr.info.TypeOf(v.Y)
			if isIntLike(tx) && isIntLike(ty) {
				a, err := ev.evalInt(v.X, fr, env)
				if err != nil {
					return false, err
				}
				b, err := ev.evalInt(v.Y, fr, env)
				if err != nil {
					return false, err
				}
				switch v.Op {
				case token.EQL:
					return a == b, nil
				case token.NEQ:
					return a != b, nil
				case token.LSS:
					return a < b, nil
				case token.LEQ:
					return a <= b, nil
				case token.GTR:
					return a > b, nil
				default:
					return a >= b, nil
				}
			}
			// boolean == / != boolean
			if bx, ok := tx.Underlying().(*types.Basic); ok && bx.Info()&types.IsBoolean != 0 && (v.Op == token.EQL || v.Op == token.NEQ) {
				a, err := ev.evalBool(v.X, fr, env)
				if err != nil {
					return false, err
				}
				b, err := ev.evalBool(v.Y, fr, env)
				if err != nil {
					return false, err
				}
				if v.Op == token.EQL {
					return a == b, nil
				}
				return a != b, nil
			}
			// nil tests and other comparisons: boolean atom "X==Y" (normalised to ==)
			// equality is symmetric: the operands are named in a fixed order
			lx, ly := ev.canon(v.X, fr), ev.canon(v.Y, fr)
			if ly < lx && ly != "nil" {
				lx, ly = ly, lx
			}
			name := ev.atomName(lx+"=="+ly, v.Pos(), env == nil)
			if (v.Op == token.EQL || v.Op == token.NEQ) && (tx != nil) {
				if env == nil {
					ev.boolAtoms[name] = true
					return false, nil
				}
				val, ok := env.bools[name]
				if !ok {
					return false, fmt.Errorf("no value for atom %s", name)
				}
				if v.Op == token.NEQ {
					return !val, nil
				}
				return val, nil
			}
		}
	case *ast.Ident:
		if b, ok := fr.subst[fr.info.ObjectOf(v)]; ok {
			return ev.evalBool(b.expr, b.frame, env)
		}
		if env != nil && env.flags != nil {
			if val, ok := env.flags[fr.info.ObjectOf(v)]; ok {
				return val, nil
			}
		}
		if d, paren := ev.aliasOf(v, fr); d != nil && paren {
			return ev.evalBool(d, fr, env)
		}
	case *ast.CallExpr:
		// single-return predicate helper of the workspace: inline
		if f := an.CalleeFunc(fr.info, v); f != nil {
			if callee := ev.e.Ix.FuncOf(f); callee != nil && singleReturn(callee) == nil {
				// a predicate with several returns and no assignments: true iff one of its paths to a `return e` holds with e true
				if ps := ev.predicatePaths(callee); ps != nil {
					nf := &dtFrame{info: callee.Pkg.Info, subst: map[types.Object]dtBound{}, recv: nil}
					if callee.Decl.Recv != nil && len(callee.Decl.Recv.List) == 1 && len(callee.Decl.Recv.List[0].Names) == 1 {
						if sel, ok := an.Unparen(v.Fun).(*ast.SelectorExpr); ok {
							nf.subst[callee.Pkg.Info.Defs[callee.Decl.Recv.List[0].Names[0]]] = dtBound{sel.X, fr}
						}
					}
					i := 0
					for _, fl := range callee.Decl.Type.Params.List {
						for _, nm := range fl.Names {
							if i < len(v.Args) {
								nf.subst[callee.Pkg.Info.Defs[nm]] = dtBound{v.Args[i], fr}
							}
							i++
						}
					}
					if env == nil {
						for _, pth := range ps {
							for _, gd := range pth {
								_, _ = ev.evalGuards([]dtGuard{gd}, nf, nil)
							}
						}
						return false, nil
					}
					saved := env.store
					defer func() { env.store = saved }()
					for _, pth := range ps {
						ok, err := ev.evalGuards(pth, nf, env)
						if err != nil {
							return false, err
						}
						if ok {
							return true, nil
						}
					}
					return false, nil
				}
			}
			if callee := ev.e.Ix.FuncOf(f); callee != nil {
				if r := singleReturn(callee); r != nil && callee.Decl != nil {
					nf := &dtFrame{info: callee.Pkg.Info, subst: map[types.Object]dtBound{}, recv: nil}
					if callee.Decl.Recv != nil && len(callee.Decl.Recv.List) == 1 && len(callee.Decl.Recv.List[0].Names) == 1 {
						if sel, ok := an.Unparen(v.Fun).(*ast.SelectorExpr); ok {
							nf.subst[callee.Pkg.Info.Defs[callee.Decl.Recv.List[0].Names[0]]] = dtBound{sel.X, fr}
						}
					}
					i := 0
					for _, fl := range callee.Decl.Type.Params.List {
						for _, nm := range fl.Names {
							if i < len(v.Args) {
								nf.subst[callee.Pkg.Info.Defs[nm]] = dtBound{v.Args[i], fr}
							}
							i++
						}
					}
					return ev.evalBool(r, nf, env)
				}
			}
			// symmetric Equal
			if f.Name() == "Equal" && len(v.Args) == 1 {
				if sel, ok := an.Unparen(v.Fun).(*ast.SelectorExpr); ok {
					a, b := stripOuterParens(ev.canon(sel.X, fr)), stripOuterParens(ev.canon(v.Args[0], fr))
					if b < a {
						a, b = b, a
					}
					name := "Equal(" + a + "," + b + ")"
					if env == nil {
						ev.boolAtoms[name] = true
						return false, nil
					}
					val, ok := env.bools[name]
					if !ok {
						return false, fmt.Errorf("no value for atom %s", name)
					}
					return val, nil
				}
			}
		}
	}
	// anything else boolean: an atom named by its canonical text
	name := ev.atomName(ev.canon(x, fr), x.Pos(), env == nil)
	if env == nil {
		ev.boolAtoms[name] = true
		return false, nil
	}
	val, ok := env.bools[name]
	if !ok {
		return false, fmt.Errorf("no value for atom %s", name)
	}
	return val, nil
}

// pathGuards returns the (condition, outcome) pairs guarding node n in g; switch case tests are rendered as tag == case.
type dtGuard struct {
	cond    ast.Expr
	tag     ast.Expr // non-nil for switch case tests
	outcome bool
	fr      *dtFrame // frame the guard is read in (nil: the frame of the function the row is about)
	// loopExit: the guard is the exit edge of a loop header passed on the way to the effect. skip: it mentions no atom the
	// row declares, so it is context (the loop ran its course), not part of the decision.
	loopExit bool
	skip     bool
	// ranged: the guard is the entry (outcome) / exit (!outcome) edge of `for ... := range ranged`: len(ranged) > 0
	ranged ast.Expr
	// assign: not a guard but an assignment to a tracked integer local passed on the path (dtTrack)
	assign ast.Node
}

// trackedInts: the locals of the function whose assignments the dtTrack reading follows: declared in the body, never
// assigned inside a function literal, address never taken. (Integers are carried by value, the others as the expression
// last assigned.)
func trackedInts(g *an.Graph) map[types.Object]bool {
	out := map[types.Object]bool{}
	if g.Body == nil {
		return out
	}
	bad := map[types.Object]bool{}
	isLocal := func(o types.Object) bool {
		v, ok := o.(*types.Var)
		return ok && !v.IsField() && v.Pkg() != nil && v.Parent() != v.Pkg().Scope()
	}
	var walk func(n ast.Node, inLit bool)
	walk = func(n ast.Node, inLit bool) {
		note := func(e ast.Expr) {
			if id, ok := an.Unparen(e).(*ast.Ident); ok {
				if o := g.Info.ObjectOf(id); o != nil && isLocal(o) {
					if inLit && !(o.Pos() >= n.Pos() && o.Pos() < n.End()) {
						bad[o] = true
					} else if !inLit {
						out[o] = true
					}
				}
			}
		}
		ast.Inspect(n, func(m ast.Node) bool {
			switch x := m.(type) {
			case *ast.FuncLit:
				if m != n {
					walk(x.Body, true)
					return false
				}
			case *ast.AssignStmt:
				for _, l := range x.Lhs {
					note(l)
				}
			case *ast.IncDecStmt:
				note(x.X)
			case *ast.ValueSpec:
				if !inLit {
					for _, nm := range x.Names {
						if o := g.Info.Defs[nm]; o != nil && isLocal(o) {
							out[o] = true
						}
					}
				}
			case *ast.RangeStmt:
				for _, l := range []ast.Expr{x.Key, x.Value} {
					if id, ok := l.(*ast.Ident); ok {
						if o := g.Info.ObjectOf(id); o != nil {
							bad[o] = true // rebound by the loop header
						}
					}
				}
			case *ast.UnaryExpr:
				if x.Op == token.AND {
					if id, ok := an.Unparen(x.X).(*ast.Ident); ok {
						if o := g.Info.ObjectOf(id); o != nil {
							bad[o] = true
						}
					}
				}
			}
			return true
		})
	}
	walk(g.Body, false)
	for o := range bad {
		delete(out, o)
	}
	return out
}

// assignsTracked: CFG node n assigns one of the tracked locals.
func assignsTracked(info *types.Info, n ast.Node, tracked map[types.Object]bool) bool {
	hit := func(e ast.Expr) bool {
		id, ok := an.Unparen(e).(*ast.Ident)
		return ok && tracked[info.ObjectOf(id)]
	}
	switch x := n.(type) {
	case *ast.AssignStmt:
		for _, l := range x.Lhs {
			if hit(l) {
				return true
			}
		}
	case *ast.IncDecStmt:
		return hit(x.X)
	case *ast.DeclStmt:
		if gd, ok := x.Decl.(*ast.GenDecl); ok {
			for _, sp := range gd.Specs {
				if vs, ok := sp.(*ast.ValueSpec); ok {
					for _, nm := range vs.Names {
						if tracked[info.Defs[nm]] {
							return true
						}
					}
				}
			}
		}
	}
	return false
}

// hasLen: a range over t runs len(t) times.
func hasLen(t types.Type) bool {
	if t == nil {
		return false
	}
	switch u := t.Underlying().(type) {
	case *types.Slice, *types.Map, *types.Array:
		return true
	case *types.Pointer:
		_, isArr := u.Elem().Underlying().(*types.Array)
		return isArr
	case *types.Basic:
		return u.Info()&types.IsString != 0
	}
	return false
}

func pathGuards(g *an.Graph, n ast.Node) []dtGuard {
	var out []dtGuard
	for _, blk := range g.CFG.Blocks {
		cd, tag := g.Cond(blk)
		if cd == nil {
			continue
		}
		for _, b := range []bool{true, false} {
			if g.GuardedBy(n, cd, b) {
				out = append(out, dtGuard{cond: cd, tag: tag, outcome: b})
			}
		}
	}
	return out
}

// allPaths enumerates the acyclic paths from the entry block to the block of atom n and returns, for each, the branch
// outcomes taken (conditions evaluated after n in n's own block are not included). ok is false if there are too many.
func allPaths(g *an.Graph, n ast.Node) (paths [][]dtGuard, ok bool) {
	p, found := g.PointOf(n)
	if !found {
		return nil, false
	}
	target := p.Block
	onPath := map[int32]bool{}
	again := map[int32]bool{}
	var cur []dtGuard
	limit := 20000
	isHeader := func(b *cfg.Block) bool {
		return len(b.Succs) == 2 && (b.Kind == cfg.KindForLoop || b.Kind == cfg.KindRangeLoop)
	}
	var tracked map[types.Object]bool
	if dtTrack {
		tracked = trackedInts(g)
	}
	var walk func(b *cfg.Block) bool
	walk = func(b *cfg.Block) bool {
		if int(b.Index) == target {
			pth := append([]dtGuard(nil), cur...)
			for _, nd := range b.Nodes {
				if len(tracked) > 0 && nd.End() <= n.Pos() && assignsTracked(g.Info, nd, tracked) {
					pth = append(pth, dtGuard{assign: nd})
				}
			}
			paths = append(paths, pth)
			return len(paths) < limit
		}
		if onPath[b.Index] {
			if dtUnroll && isHeader(b) && !again[b.Index] {
				// the loop ran its body once: it is left now, whatever its condition says
				again[b.Index] = true
				cont := walk(b.Succs[1])
				again[b.Index] = false
				return cont
			}
			return true
		}
		onPath[b.Index] = true
		defer func() { onPath[b.Index] = false }()
		if len(tracked) > 0 {
			mark := len(cur)
			for _, nd := range b.Nodes {
				if assignsTracked(g.Info, nd, tracked) {
					cur = append(cur, dtGuard{assign: nd})
				}
			}
			defer func() { cur = cur[:mark] }()
		}
		cd, tag := g.Cond(b)
		var ranged ast.Expr
		if dtUnroll && cd == nil && b.Kind == cfg.KindRangeLoop && len(b.Succs) == 2 {
			if rs, isRange := b.Stmt.(*ast.RangeStmt); isRange && hasLen(g.Info.TypeOf(rs.X)) {
				ranged = rs.X
			}
		}
		for i, s := range b.Succs {
			guarded := false
			if cd != nil && len(b.Succs) == 2 {
				cur = append(cur, dtGuard{cond: cd, tag: tag, outcome: i == 0, loopExit: i == 1 && b.Kind == cfg.KindForLoop})
				guarded = true
			} else if ranged != nil {
				cur = append(cur, dtGuard{ranged: ranged, outcome: i == 0})
				guarded = true
			}
			cont := walk(s)
			if guarded {
				cur = cur[:len(cur)-1]
			}
			if !cont {
				return false
			}
		}
		return true
	}
	if len(g.CFG.Blocks) == 0 {
		return nil, false
	}
	ok = walk(g.CFG.Blocks[0])
	return paths, ok
}

func (ev *dtEval) evalGuards(gs []dtGuard, fr0 *dtFrame, env *dtEnv) (bool, error) {
	if env != nil {
		env.store = nil
		env.sym = nil
		env.flags = nil
	}
	for _, gd := range gs {
		var v bool
		var err error
		if gd.skip {
			continue
		}
		fr := fr0
		if gd.fr != nil {
			fr = gd.fr
		}
		if gd.assign != nil {
			if err := ev.execAssign(gd.assign, fr, env); err != nil {
				return false, err
			}
			continue
		}
		if gd.ranged != nil {
			name := "len(" + ev.canon(gd.ranged, fr) + ")"
			if env == nil {
				ev.intTerms[name] = types.Typ[types.Int]
				continue
			}
			val, ok := env.ints[name]
			if !ok {
				return false, fmt.Errorf("no value for term %s", name)
			}
			if (val > 0) != gd.outcome {
				return false, nil
			}
			continue
		}
		if gd.tag != nil && !isIntLike(fr.info.TypeOf(gd.tag)) {
			// switch over a non-integer (an error value, a string): the case test is the atom tag==case
			lx, ly := ev.canon(gd.tag, fr), ev.canon(gd.cond, fr)
			if ly < lx && ly != "nil" {
				lx, ly = ly, lx
			}
			name := ev.atomName(lx+"=="+ly, gd.cond.Pos(), env == nil)
			if env == nil {
				ev.boolAtoms[name] = true
				continue
			}
			val, ok := env.bools[name]
			if !ok {
				return false, fmt.Errorf("no value for atom %s", name)
			}
			v = val
		} else if gd.tag != nil {
			a, e1 := ev.evalInt(gd.tag, fr, env)
			b, e2 := ev.evalInt(gd.cond, fr, env)
			if e1 != nil {
				return false, e1
			}
			if e2 != nil {
				return false, e2
			}
			v = a == b
		} else {
			v, err = ev.evalBool(gd.cond, fr, env)
			if err != nil {
				return false, err
			}
		}
		if v != gd.outcome {
			return false, nil
		}
	}
	return true, nil
}

// enumerate calls f for every assignment of the collected atoms; integer terms range over enum constants of
// their type when the type is a named integer type with constants in pkg, else over {0,1,2,3}.
// literalNeighbours: for up to three integer literals outside -1..3 that occur in the function the row is about, the
// literal and its two neighbours.
func (ev *dtEval) literalNeighbours() []int64 {
	if ev.root == nil {
		return nil
	}
	if ev.litDom != nil {
		return ev.litDom
	}
	seen := map[int64]bool{}
	var lits []int64
	ast.Inspect(ev.root, func(m ast.Node) bool {
		if bl, ok := m.(*ast.BasicLit); ok && bl.Kind == token.INT {
			if v, err := strconv.ParseInt(bl.Value, 0, 64); err == nil && (v < -1 || v > 3) && v < 1<<30 && !seen[v] {
				seen[v] = true
				lits = append(lits, v)
			}
		}
		return true
	})
	sort.Slice(lits, func(i, j int) bool { return lits[i] < lits[j] })
	if len(lits) > 3 {
		lits = lits[:3]
	}
	out := []int64{}
	have := map[int64]bool{-1: true, 0: true, 1: true, 2: true, 3: true}
	for _, v := range lits {
		for _, w := range []int64{v - 1, v, v + 1} {
			if !have[w] {
				have[w] = true
				out = append(out, w)
			}
		}
	}
	ev.litDom = out
	return out
}

func (ev *dtEval) enumerate(pkg *types.Package, f func(env *dtEnv) bool) {
	var inames, bnames []string
	for k := range ev.intTerms {
		inames = append(inames, k)
	}
	for k := range ev.boolAtoms {
		bnames = append(bnames, k)
	}
	sort.Strings(inames)
	sort.Strings(bnames)
	domains := make([][]int64, len(inames))
	for i, n := range inames {
		t := ev.intTerms[n]
		var dom []int64
		if named, ok := t.(*types.Named); ok && named.Obj().Pkg() == pkg {
			sc := pkg.Scope()
			for _, nm := range sc.Names() {
				if cst, ok := sc.Lookup(nm).(*types.Const); ok && types.Identical(cst.Type(), t) {
					if v, ok := constant.Int64Val(constant.ToInt(cst.Val())); ok {
						dom = append(dom, v)
					}
				}
			}
		}
		if len(dom) == 0 {
			dom = []int64{-1, 0, 1, 2, 3}
			// integer literals the function compares with lie inside the domain too (with their neighbours): `n < 8` is
			// not the same condition as `true`
			dom = append(dom, ev.literalNeighbours()...)
		}
		domains[i] = dom
	}
	env := &dtEnv{ints: map[string]int64{}, bools: map[string]bool{}}
	var rec func(i int) bool
	rec = func(i int) bool {
		if i < len(inames) {
			for _, v := range domains[i] {
				env.ints[inames[i]] = v
				if !rec(i + 1) {
					return false
				}
			}
			return true
		}
		j := i - len(inames)
		if j < len(bnames) {
			for _, v := range []bool{false, true} {
				env.bools[bnames[j]] = v
				if !rec(i + 1) {
					return false
				}
			}
			return true
		}
		return f(env)
	}
	rec(0)
}

func (env *dtEnv) String() string {
	var parts []string
	for k, v := range env.ints {
		parts = append(parts, fmt.Sprintf("%s=%d", k, v))
	}
	for k, v := range env.bools {
		parts = append(parts, fmt.Sprintf("%s=%v", k, v))
	}
	sort.Strings(parts)
	return strings.Join(parts, " ")
}

// stripOuterParens removes one pair of parentheses that encloses the whole of s.
func stripOuterParens(s string) string {
	if len(s) < 2 || s[0] != '(' || s[len(s)-1] != ')' {
		return s
	}
	depth := 0
	for i := 0; i < len(s); i++ {
		switch s[i] {
		case '(':
			depth++
		case ')':
			depth--
			if depth == 0 && i != len(s)-1 {
				return s
			}
		}
	}
	return s[1 : len(s)-1]
}

// callFree: x contains no function literal, receive or address-of (calls of methods are read like the condition itself).
func (ev *dtEval) callFree(x ast.Expr) bool {
	ok := true
	ast.Inspect(x, func(m ast.Node) bool {
		switch u := m.(type) {
		case *ast.FuncLit:
			ok = false
		case *ast.UnaryExpr:
			if u.Op == token.ARROW || u.Op == token.AND {
				ok = false
			}
		}
		return ok
	})
	return ok
}

// aliasOf: the definition a single-definition local of the function stands for, when reading the definition in place of
// the local is sound at this use (nil otherwise). paren: the definition is a compound expression.
//   - a bare field of the receiver read in the init clause of the if / switch that tests it (both passes);
//   - second pass only: an expression over parameters and other such locals (pureAlias), any call-free expression in the
//     init-clause form, or an expression over receiver state that nothing between the definition and the use can change
//     (stableAlias).
func (ev *dtEval) aliasOf(v *ast.Ident, fr *dtFrame) (def ast.Expr, paren bool) {
	o := fr.info.ObjectOf(v)
	if ev.root == nil || o == nil || len(fr.subst) != 0 {
		return nil, false
	}
	d, seen := ev.defMemo[o]
	if !seen {
		d = nil
		if _, isVar := o.(*types.Var); isVar && o.Pos() >= ev.root.Pos() && o.Pos() < ev.root.End() {
			if sd := an.SingleDef(fr.info, ev.root, o); sd != nil {
				d = sd
			}
		}
		ev.defMemo[o] = d
	}
	if d == nil {
		return nil, false
	}
	if ev.isRecvField(d, fr) {
		if ev.aliasFresh(d, v, fr) {
			return d, false
		}
		return nil, false
	}
	if dtResolvePure && !ev.keep[v.Name] && (ev.pureAlias(d, v, fr) || (ev.callFree(d) && (ev.aliasFresh(d, v, fr) || ev.stableAlias(d, v, fr)))) {
		return d, true
	}
	return nil, false
}

// ptrAliasOf: the single-definition local p was defined `p := &E` with E a call-free location (fields and elements of
// the receiver's state), and between the definition and the use nothing changes which location E denotes: no write to a
// local E mentions, and the conditions of stableAlias for the receiver state E reads (writes through p itself change
// the content of the location, which `p.f` and `E.f` both see). Then `p.f` is `E.f` and `*p` is E.
func (ev *dtEval) ptrAliasOf(v *ast.Ident, fr *dtFrame) ast.Expr {
	if !dtResolvePure || ev.root == nil || len(fr.subst) != 0 || ev.keep[v.Name] {
		return nil
	}
	o := fr.info.ObjectOf(v)
	if o == nil {
		return nil
	}
	if _, isVar := o.(*types.Var); !isVar || o.Pos() < ev.root.Pos() || o.Pos() >= ev.root.End() {
		return nil
	}
	d := an.SingleDef(fr.info, ev.root, o)
	if d == nil {
		return nil
	}
	u, ok := an.Unparen(d).(*ast.UnaryExpr)
	if !ok || u.Op != token.AND {
		return nil
	}
	tgt := u.X
	switch an.Unparen(tgt).(type) {
	case *ast.IndexExpr, *ast.SelectorExpr:
	default:
		return nil
	}
	if !ev.callFree(tgt) || !ev.stableAlias(tgt, v, fr) {
		return nil
	}
	// locals the location mentions are not written between the definition and the use (nor later in a loop around the
	// use that does not contain the definition)
	lo, hi := d.End(), v.Pos()
	ast.Inspect(ev.root, func(m ast.Node) bool {
		switch m.(type) {
		case *ast.ForStmt, *ast.RangeStmt:
			if m.Pos() <= v.Pos() && v.End() <= m.End() && !(m.Pos() <= d.Pos() && d.End() <= m.End()) && m.End() > hi {
				hi = m.End()
			}
		}
		return true
	})
	locals := map[types.Object]bool{}
	ast.Inspect(tgt, func(m ast.Node) bool {
		if id, ok := m.(*ast.Ident); ok {
			if lo := fr.info.ObjectOf(id); lo != nil && lo != fr.recv {
				if lv, isVar := lo.(*types.Var); isVar && !lv.IsField() {
					locals[lo] = true
				}
			}
		}
		return true
	})
	okRes := true
	ast.Inspect(ev.root, func(m ast.Node) bool {
		if m == nil || !okRes {
			return false
		}
		if m.End() <= lo || m.Pos() >= hi {
			return m.Pos() < hi && m.End() > lo
		}
		switch x := m.(type) {
		case *ast.AssignStmt:
			for _, l := range x.Lhs {
				if id, ok := an.Unparen(l).(*ast.Ident); ok && locals[fr.info.ObjectOf(id)] && m.Pos() >= lo {
					okRes = false
				}
			}
		case *ast.IncDecStmt:
			if id, ok := an.Unparen(x.X).(*ast.Ident); ok && locals[fr.info.ObjectOf(id)] && m.Pos() >= lo {
				okRes = false
			}
		case *ast.UnaryExpr:
			if id, ok := an.Unparen(x.X).(*ast.Ident); ok && x.Op == token.AND && locals[fr.info.ObjectOf(id)] {
				okRes = false
			}
		}
		return okRes
	})
	if !okRes {
		return nil
	}
	return tgt
}

// stableAlias: def reads receiver state, and between the definition and the use (through the end of any loop around the
// use that does not also contain the definition) the function does nothing that could change what def denotes: no
// assignment through the receiver, no call that is handed the receiver or one of its fields (builtins apart), no method
// call on the receiver or its fields, no channel operation, go, defer, select, goto or function literal. Under these
// conditions the local is only a name for the expression.
func (ev *dtEval) stableAlias(def ast.Expr, use *ast.Ident, fr *dtFrame) bool {
	key := [2]token.Pos{-def.Pos(), -use.Pos()}
	if v, ok := ev.freshMemo[key]; ok {
		return v
	}
	res := def.End() <= use.Pos()
	lo, hi := def.End(), use.Pos()
	// loops around the use that do not contain the definition
	ast.Inspect(ev.root, func(m ast.Node) bool {
		switch m.(type) {
		case *ast.ForStmt, *ast.RangeStmt:
			if m.Pos() <= use.Pos() && use.End() <= m.End() && !(m.Pos() <= def.Pos() && def.End() <= m.End()) && m.End() > hi {
				hi = m.End()
			}
		}
		return true
	})
	rooted := func(x ast.Expr) bool {
		found := false
		ast.Inspect(x, func(m ast.Node) bool {
			if id, ok := m.(*ast.Ident); ok && fr.recv != nil && fr.info.ObjectOf(id) == fr.recv {
				found = true
			}
			return !found
		})
		return found
	}
	ast.Inspect(ev.root, func(m ast.Node) bool {
		if m == nil || !res {
			return false
		}
		if m.End() <= lo || m.Pos() >= hi {
			return m.Pos() < hi && m.End() > lo
		}
		switch x := m.(type) {
		case *ast.FuncLit, *ast.GoStmt, *ast.DeferStmt, *ast.SelectStmt, *ast.SendStmt, *ast.BranchStmt:
			if b, isBr := x.(*ast.BranchStmt); isBr && b.Tok != token.GOTO {
				return true
			}
			res = false
		case *ast.UnaryExpr:
			if x.Op == token.ARROW || (x.Op == token.AND && rooted(x.X)) {
				res = false
			}
		case *ast.AssignStmt:
			for _, l := range x.Lhs {
				if _, plain := an.Unparen(l).(*ast.Ident); !plain && rooted(l) {
					// only writes that can reach what def reads matter: a different field of the receiver is harmless
					if !ev.disjointField(l, def, fr) {
						res = false
					}
				}
			}
		case *ast.IncDecStmt:
			if rooted(x.X) && !ev.disjointField(x.X, def, fr) {
				res = false
			}
		case *ast.CallExpr:
			if m.Pos() < lo {
				return true // a call that began before the definition (the definition is one of its operands)
			}
			if id, ok := an.Unparen(x.Fun).(*ast.Ident); ok {
				if _, isBuiltin := fr.info.ObjectOf(id).(*types.Builtin); isBuiltin {
					return true
				}
			}
			if tv, ok := fr.info.Types[x.Fun]; ok && tv.IsType() {
				return true // conversion
			}
			if rooted(x.Fun) {
				res = false
			}
			for _, a := range x.Args {
				if rooted(a) {
					res = false
				}
			}
		}
		return res
	})
	ev.freshMemo[key] = res
	return res
}

// disjointField: the assigned location lhs (rooted at the receiver) is a field that def does not mention.
func (ev *dtEval) disjointField(lhs ast.Expr, def ast.Expr, fr *dtFrame) bool {
	// first field selected from the receiver in lhs
	var first *types.Var
	ast.Inspect(lhs, func(m ast.Node) bool {
		if sel, ok := m.(*ast.SelectorExpr); ok {
			if id, ok := an.Unparen(sel.X).(*ast.Ident); ok && fr.recv != nil && fr.info.ObjectOf(id) == fr.recv {
				first = an.SelectedField(fr.info, sel)
			}
		}
		return true
	})
	if first == nil {
		return false
	}
	mentioned := false
	ast.Inspect(def, func(m ast.Node) bool {
		if sel, ok := m.(*ast.SelectorExpr); ok {
			if id, ok := an.Unparen(sel.X).(*ast.Ident); ok && fr.recv != nil && fr.info.ObjectOf(id) == fr.recv {
				if f := an.SelectedField(fr.info, sel); f == nil || f == first {
					mentioned = true
				}
			}
		}
		if id, ok := m.(*ast.Ident); ok && fr.recv != nil && fr.info.ObjectOf(id) == fr.recv {
			// a bare use of the receiver (not through a selector) reads everything
			_ = id
		}
		return true
	})
	return !mentioned
}

// execAssign carries out, on env.store, an assignment to tracked integer locals met on the path (collecting the atoms
// of its right-hand sides when env is nil).
func (ev *dtEval) execAssign(n ast.Node, fr *dtFrame, env *dtEnv) error {
	set := func(o types.Object, v int64) {
		if env == nil || o == nil {
			return
		}
		if env.store == nil {
			env.store = map[types.Object]int64{}
		}
		env.store[o] = v
	}
	forget := func(o types.Object) {
		if env != nil && env.store != nil {
			delete(env.store, o)
		}
	}
	switch x := n.(type) {
	case *ast.IncDecStmt:
		old, err := ev.evalInt(x.X, fr, env)
		if err != nil {
			return err
		}
		if x.Tok == token.INC {
			set(an.ObjOf(fr.info, x.X), old+1)
		} else {
			set(an.ObjOf(fr.info, x.X), old-1)
		}
	case *ast.DeclStmt:
		if gd, ok := x.Decl.(*ast.GenDecl); ok {
			for _, sp := range gd.Specs {
				vs, ok := sp.(*ast.ValueSpec)
				if !ok {
					continue
				}
				for i, nm := range vs.Names {
					o := fr.info.Defs[nm]
					if o == nil || !isIntLike(o.Type()) {
						continue
					}
					switch {
					case len(vs.Values) == 0:
						set(o, 0)
					case len(vs.Values) == len(vs.Names):
						v, err := ev.evalInt(vs.Values[i], fr, env)
						if err != nil {
							return err
						}
						set(o, v)
					default:
						forget(o)
					}
				}
			}
		}
	case *ast.AssignStmt:
		if len(x.Lhs) != len(x.Rhs) {
			for _, l := range x.Lhs {
				forget(an.ObjOf(fr.info, l))
				if env != nil && env.sym != nil {
					delete(env.sym, an.ObjOf(fr.info, l))
				}
				if env != nil && env.flags != nil {
					delete(env.flags, an.ObjOf(fr.info, l))
				}
			}
			return nil
		}
		vals := make([]int64, len(x.Lhs))
		isInt := make([]bool, len(x.Lhs))
		for i, l := range x.Lhs {
			o := an.ObjOf(fr.info, l)
			if _, isId := an.Unparen(l).(*ast.Ident); isId && o != nil && isBoolType(o.Type()) {
				if x.Tok != token.ASSIGN && x.Tok != token.DEFINE {
					continue
				}
				// a constant, or a copy of another tracked flag (anything else stays a free atom named by the local)
				r := an.Unparen(x.Rhs[i])
				_, isIdent := r.(*ast.Ident)
				tv, hasTV := fr.info.Types[r]
				if !(isIdent || (hasTV && tv.Value != nil)) {
					if env != nil && env.flags != nil {
						delete(env.flags, o)
					}
					continue
				}
				v, err := ev.evalBool(r, fr, env)
				if err != nil {
					return err
				}
				if env != nil {
					if env.flags == nil {
						env.flags = map[types.Object]bool{}
					}
					env.flags[o] = v
				}
				continue
			}
			if _, isId := an.Unparen(l).(*ast.Ident); isId && o != nil && !isIntLike(o.Type()) && env != nil {
				if env.sym == nil {
					env.sym = map[types.Object]dtBound{}
				}
				if x.Tok == token.ASSIGN || x.Tok == token.DEFINE {
					env.sym[o] = dtBound{expr: x.Rhs[i], frame: fr}
				} else {
					delete(env.sym, o)
				}
				continue
			}
			if _, isId := an.Unparen(l).(*ast.Ident); !isId || o == nil || !isIntLike(o.Type()) {
				continue
			}
			isInt[i] = true
			r, err := ev.evalInt(x.Rhs[i], fr, env)
			if err != nil {
				return err
			}
			if x.Tok == token.ASSIGN || x.Tok == token.DEFINE {
				vals[i] = r
				continue
			}
			old, err := ev.evalInt(l, fr, env)
			if err != nil {
				return err
			}
			switch x.Tok {
			case token.ADD_ASSIGN:
				vals[i] = old + r
			case token.SUB_ASSIGN:
				vals[i] = old - r
			case token.MUL_ASSIGN:
				vals[i] = old * r
			case token.QUO_ASSIGN:
				if r != 0 {
					vals[i] = old / r
				}
			case token.REM_ASSIGN:
				if r != 0 {
					vals[i] = old % r
				}
			default:
				return fmt.Errorf("unsupported assignment operator %s", x.Tok)
			}
		}
		for i, l := range x.Lhs {
			if isInt[i] {
				set(an.ObjOf(fr.info, l), vals[i])
			}
		}
	}
	return nil
}

// predicatePaths: for a function with a single boolean result and no function literals, the acyclic paths to each of
// its return statements, each followed by the returned expression as a last guard: the function returns true iff the
// guards of one of these paths all hold. nil if the function does not have that form.
func (ev *dtEval) predicatePaths(fn *an.Func) [][]dtGuard {
	if fn == nil || fn.Body() == nil || fn.Decl == nil || fn.Decl.Type.Results == nil || len(fn.Decl.Type.Results.List) != 1 {
		return nil
	}
	if cached, ok := ev.predMemo[fn]; ok {
		return cached
	}
	if ev.predMemo == nil {
		ev.predMemo = map[*an.Func][][]dtGuard{}
	}
	ev.predMemo[fn] = nil
	rt := fn.Pkg.Info.TypeOf(fn.Decl.Type.Results.List[0].Type)
	if b, ok := rt.Underlying().(*types.Basic); !ok || b.Info()&types.IsBoolean == 0 || len(fn.Decl.Type.Results.List[0].Names) > 0 {
		return nil
	}
	simple := true
	var rets []*ast.ReturnStmt
	ast.Inspect(fn.Body(), func(m ast.Node) bool {
		switch x := m.(type) {
		case *ast.FuncLit, *ast.GoStmt, *ast.DeferStmt, *ast.SendStmt, *ast.AssignStmt, *ast.IncDecStmt:
			simple = false
		case *ast.ReturnStmt:
			if len(x.Results) != 1 {
				simple = false
			}
			rets = append(rets, x)
		}
		return simple
	})
	if !simple || len(rets) < 2 {
		return nil
	}
	// a case analysis: every result is a boolean constant (a function that hands on another call's answer is not read
	// through)
	for _, r := range rets {
		if tv, ok := fn.Pkg.Info.Types[r.Results[0]]; !ok || tv.Value == nil {
			return nil
		}
	}
	g := ev.e.Graph(fn)
	var out [][]dtGuard
	for _, r := range rets {
		ps, ok := allPaths(g, r)
		if !ok {
			return nil
		}
		for _, pth := range ps {
			out = append(out, append(pth, dtGuard{cond: r.Results[0], outcome: true}))
		}
	}
	ev.predMemo[fn] = out
	return out
}

// canonSym renders x like canon, reading a local through the expression the path last assigned to it (dtTrack).
func (ev *dtEval) canonSym(x ast.Expr, fr *dtFrame, env *dtEnv) string {
	for depth := 0; depth < 6 && env != nil && env.sym != nil; depth++ {
		id, ok := an.Unparen(x).(*ast.Ident)
		if !ok {
			break
		}
		b, has := env.sym[fr.info.ObjectOf(id)]
		if !has {
			break
		}
		x, fr = b.expr, b.frame
	}
	return stripOuterParens(ev.canon(x, fr))
}

func isBoolType(t types.Type) bool {
	if t == nil {
		return false
	}
	b, ok := t.Underlying().(*types.Basic)
	return ok && b.Info()&types.IsBoolean != 0
}

// symExpr reads a local through the expression the path last assigned to it (dtTrack).
func (ev *dtEval) symExpr(x ast.Expr, fr *dtFrame, env *dtEnv) (ast.Expr, *dtFrame) {
	for depth := 0; depth < 6 && env != nil && env.sym != nil; depth++ {
		id, ok := an.Unparen(x).(*ast.Ident)
		if !ok {
			break
		}
		b, has := env.sym[fr.info.ObjectOf(id)]
		if !has {
			break
		}
		x, fr = b.expr, b.frame
	}
	return x, fr
}
