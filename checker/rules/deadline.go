package rules

import (
	"fmt"
	"go/ast"
	"go/types"

	"golang.org/x/tools/go/cfg"

	"pgoverif/checker/an"
	"pgoverif/checker/core"
)

func init() {
	register(&core.Rule{ID: "DEADLINE-SCOPED", Props: []string{"C19", "C06"}, Floor: 2,
		Doc: "a deadline armed on a network connection covers one operation: every SetDeadline / SetReadDeadline / SetWriteDeadline with a real time is followed, on every path on which arming succeeded, by the same setter with the zero time before the function returns - an absolute deadline left on a connection that is then served or reused for its lifetime (the monitor's RPC connections, the mailbox links) cuts a healthy connection when it expires, and the peer is reported failed / the section aborted",
		Run: runDeadlineScoped})
}

func runDeadlineScoped(c *core.Ctx) {
	e := EnvOf(c.Prog)
	n := 0
	isSetter := func(info *types.Info, a ast.Node) (call *ast.CallExpr, name string, zero bool, ok bool) {
		call, isCall := a.(*ast.CallExpr)
		if !isCall || len(call.Args) != 1 {
			return nil, "", false, false
		}
		sel, isSel := an.Unparen(call.Fun).(*ast.SelectorExpr)
		if !isSel {
			return nil, "", false, false
		}
		switch sel.Sel.Name {
		case "SetDeadline", "SetReadDeadline", "SetWriteDeadline":
		default:
			return nil, "", false, false
		}
		// receiver is a net.Conn (or implements it)
		tv := info.TypeOf(sel.X)
		if tv == nil {
			return nil, "", false, false
		}
		if cl, isLit := an.Unparen(call.Args[0]).(*ast.CompositeLit); isLit && len(cl.Elts) == 0 {
			zero = true
		}
		return call, sel.Sel.Name, zero, true
	}
	for _, fn := range e.Ix.Funcs() {
		if fn.Pkg.Path != an.PkgResources && fn.Pkg.Path != an.PkgDistsys {
			continue
		}
		if fn.Body() == nil {
			continue
		}
		info := fn.Pkg.Info
		for _, b := range bodiesOf(fn) {
			g := graphOfBody(e, fn.Pkg, fn, b)
			k := 0
			for _, a := range g.FindAtoms(func(a ast.Node) bool { _, _, zero, ok := isSetter(info, a); return ok && !zero }) {
				_, name, _, _ := isSetter(info, a)
				k++
				n++
				key := fmt.Sprintf("%s:%s#%d-disarmed-before-return", fn.Name(), name, k)
				var errObj types.Object
				if as, ok := g.Parent(a).(*ast.AssignStmt); ok && len(as.Lhs) == 1 {
					errObj = an.ObjOf(info, as.Lhs[0])
				}
				edges := func(from *cfg.Block, i int) bool {
					cc, _ := g.Cond(from)
					if cc == nil || errObj == nil {
						return true
					}
					if ok, nn := nilTestOn(g, info, cc, func(x ast.Expr) bool { return an.ObjOf(info, x) == errObj }); ok {
						return (i == 0) != nn // only the side on which arming succeeded
					}
					return true
				}
				q := g.Search(an.Query{From: a, Edges: edges, ToExit: true, Avoid: func(y ast.Node) bool {
					_, nm, zero, ok := isSetter(info, y)
					return ok && zero && nm == name
				}})
				c.Check(!q.Found, key, a.Pos(), "the deadline is cleared on every path on which it was armed",
					"the deadline armed here is still set when the function returns: it is an absolute time, so a connection that is then served or reused for longer than that is cut although nothing is wrong (a monitor would drop its detectors' connections, which report a live archetype as failed until they re-dial)")
			}
		}
	}
	if n == 0 {
		c.Lost("deadline setters", "no SetDeadline/SetReadDeadline/SetWriteDeadline with a real time found")
	}
}
