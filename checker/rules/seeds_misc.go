package rules

func init() {
	const fair = "distsys/fairness.go"
	const ctx = "distsys/mpcalctx.go"
	const ai = "distsys/archetypeinterface.go"
	seed(Seed{Name: "count-not-range-checked", Prop: "C10", Rule: "FC-RANGE", File: fair,
		Old: "\tif countToReturn >= ceiling {\n\t\tpanic(fmt.Errorf(\"bad state: tried to return count %d, which doesn't fit ceiling %d\", countToReturn, ceiling))\n\t}\n", New: "", Expect: "in-range"})
	seed(Seed{Name: "digit-init-unreduced", Prop: "C10", Rule: "FC-RANGE", File: fair,
		Old: "count:   uint(rand.Uint32()) % ceiling,", New: "count:   uint(rand.Uint32()) % (ceiling + 1),", Expect: "digit-initialised"})
	seed(Seed{Name: "oracle-advanced-after-body", Prop: "C10", Rule: "FC-BEGIN", File: ctx,
		Old: "\t\tctx.fairnessCounter.BeginCriticalSection(pcValStr)\n\t\tcriticalSection := ctx.iface.getCriticalSection(pcValStr)\n\t\terr = criticalSection.Body(ctx.iface)\n",
		New: "\t\tcriticalSection := ctx.iface.getCriticalSection(pcValStr)\n\t\terr = criticalSection.Body(ctx.iface)\n\t\tctx.fairnessCounter.BeginCriticalSection(pcValStr)\n", Expect: "Run:oracle"})
	seed(Seed{Name: "increment-skips-first-digit", Prop: "C10", Rule: "FC-CARRY", File: fair,
		Old: "idx >= 0; idx--", New: "idx > 0; idx--", Expect: "visits-every-digit"})
	seed(Seed{Name: "increment-from-shallowest", Prop: "C10", Rule: "FC-CARRY", File: fair,
		Old: "for idx := len(counterStack) - 1; idx >= 0; idx-- {", New: "for idx := 0; idx < len(counterStack); idx++ {", Expect: "BeginCriticalSection:"})
	seed(Seed{Name: "carry-dropped-on-overflow", Prop: "C10", Rule: "FC-CARRY", File: fair,
		Old: "\t\t\tcarry = count / ceiling\n", New: "", Expect: "carry-propagates"})
	seed(Seed{Name: "stop-at-first-non-overflow", Prop: "C10", Rule: "FC-CARRY", File: fair,
		Old: "\t\tcounterStack[idx].count = count\n", New: "\t\tcounterStack[idx].count = count\n\t\tif carry == 0 {\n\t\t\tbreak\n\t\t}\n", Expect: "no-early-exit"})
	seed(Seed{Name: "label-change-keeps-digits", Prop: "C10", Rule: "FC-CARRY", File: fair,
		Old: "\t\tcnt.counterStack = cnt.counterStack[:0]\n\t\tcnt.pc = pc", New: "\t\tcnt.pc = pc", Expect: "new-label-resets"})
	seed(Seed{Name: "either-arm-unreachable", Prop: "C10", Rule: "FC-IDS", File: "systems/raftkvs/raftkvs.go",
		Old: "switch iface.NextFairnessCounter(\"AServer.handleMsg.0\", 2) {", New: "switch iface.NextFairnessCounter(\"AServer.handleMsg.0\", 1) {", Expect: "AServer.handleMsg"})
	seed(Seed{Name: "with-without-empty-abort", Prop: "C10", Rule: "FC-IDS", File: "systems/raftkvs/raftkvs.go",
		Old: "\t\t\t\tif srvRead.AsSet().Len() == 0 {\n\t\t\t\t\treturn distsys.ErrCriticalSectionAborted\n\t\t\t\t}\n", New: "", Expect: "AClient.sndReq"})

	// ---- C18
	seed(Seed{Name: "abort-not-logged", Prop: "C18", Rule: "EV-PAIR", File: ctx,
		Old: "\tctx.eventState.CommitEvent(ctx.vclockSink.GetVClock(), true)\n", New: "", Expect: "abort:logs-aborted-attempt"})
	seed(Seed{Name: "commit-logged-before-commits", Prop: "C18", Rule: "EV-PAIR", File: ctx,
		Old: "\t// same as above, run all the commit processes async\n", New: "\tctx.eventState.CommitEvent(ctx.vclockSink.GetVClock(), false)\n", Expect: "commit:"})
	seed(Seed{Name: "begin-event-after-pc-read", Prop: "C18", Rule: "EV-PAIR", File: ctx,
		Old: "\t\tctx.eventState.BeginEvent()\n\t\tctx.vclockSink.InitCriticalSection(ctx.archetype.Name, ctx.self)\n\n\t\tvar pcVal tla.Value\n\t\tpcVal, err = ctx.iface.Read(pc, nil)\n\t\tif err != nil {\n\t\t\tcontinue\n\t\t}\n",
		New: "\t\tvar pcVal tla.Value\n\t\tpcVal, err = ctx.iface.Read(pc, nil)\n\t\tif err != nil {\n\t\t\tcontinue\n\t\t}\n\t\tctx.eventState.BeginEvent()\n\t\tctx.vclockSink.InitCriticalSection(ctx.archetype.Name, ctx.self)\n", Expect: "Run:begin"})
	seed(Seed{Name: "failed-read-recorded", Prop: "C18", Rule: "EV-RECORD", File: ai,
		Old: "\tvalue, err = res.ReadValue(iface)\n\tif err == nil {\n\t\tclk := value.GetVClock()\n\t\tif clk != nil {\n\t\t\tiface.GetVClockSink().WitnessVClock(*clk)\n\t\t}\n\t\tiface.ctx.eventState.RecordRead(iface.nameFromHandle(handle), indices, value)\n\t}",
		New: "\tvalue, err = res.ReadValue(iface)\n\tif err == nil {\n\t\tclk := value.GetVClock()\n\t\tif clk != nil {\n\t\t\tiface.GetVClockSink().WitnessVClock(*clk)\n\t\t}\n\t}\n\tiface.ctx.eventState.RecordRead(iface.nameFromHandle(handle), indices, value)", Expect: "Read:records-only-successful-ops"})
	seed(Seed{Name: "write-recorded-without-indices", Prop: "C18", Rule: "EV-RECORD", File: ai,
		Old: "iface.ctx.eventState.RecordWrite(iface.nameFromHandle(handle), indices, oldValueHint, value)", New: "iface.ctx.eventState.RecordWrite(iface.nameFromHandle(handle), nil, oldValueHint, value)", Expect: "Write:records-what-was-accessed"})
	seed(Seed{Name: "clock-not-incremented", Prop: "C18", Rule: "CLK-INC", File: ctx,
		Old: "\t\tctx.vclockSink.InitCriticalSection(ctx.archetype.Name, ctx.self)\n", New: "", Expect: "Run:InitCriticalSection"})
	seed(Seed{Name: "read-does-not-witness", Prop: "C18", Rule: "CLK-WITNESS", File: ai,
		Old: "\t\tif clk != nil {\n\t\t\tiface.GetVClockSink().WitnessVClock(*clk)\n\t\t}\n", New: "\t\t_ = clk\n", Expect: "Read:witnesses"})
	seed(Seed{Name: "write-unstamped", Prop: "C18", Rule: "CLK-WITNESS", File: ai,
		Old: "err = res.WriteValue(iface, tla.WrapCausal(value, iface.GetVClockSink().GetVClock()))", New: "err = res.WriteValue(iface, value)", Expect: "Write:wraps"})
	seed(Seed{Name: "hint-not-disarmed", Prop: "C18", Rule: "HINT-PAIR", File: ai,
		Old: "\t\tiface.ctx.oldValueHintReceiver = nil\n\t}()\n", New: "\t}()\n", Expect: "hint-disarmed"})
	seed(Seed{Name: "local-commit-keeps-write-clock", Prop: "C18", Rule: "CLK-COMMITSTAMP", File: "distsys/archetyperesource.go",
		Old: "\tres.clock = res.clock.Merge(iface.GetVClockSink().GetVClock())\n\treturn nil\n}\n\nfunc (res *LocalArchetypeResource) ReadValue", New: "\treturn nil\n}\n\nfunc (res *LocalArchetypeResource) ReadValue", Expect: "LocalArchetypeResource.Commit"})
	seed(Seed{Name: "outputchan-write-time-clock", Prop: "C18", Rule: "CLK-COMMITSTAMP", File: "distsys/resources/channels.go",
		Old: "res.channel <- tla.WrapCausal(value.StripVClock(), iface.GetVClockSink().GetVClock())", New: "res.channel <- value", Expect: "OutputChan.Commit"})
}

func init() {
	seed(Seed{Name: "hint-is-committed-value", Prop: "C18", Rule: "HINT-PAIR", File: "distsys/archetyperesource.go",
		Old: "iface.oldValueHint(res.value)", New: "iface.oldValueHint(res.oldValue)", Expect: "hint-source"})
}
