package rules

// Seeds for the decision-table rules and the other rules added in rounds 2/3.
func init() {
	const res = "distsys/resources/"
	const tla = "distsys/tla/"
	seed(Seed{Name: "intersect-keeps-missing", Prop: "C03", Rule: "OP-DECISION", File: tla + "symbols.go",
		Old: "\t\tif _, ok := rhsSet.Get(elem); ok {\n\t\t\tbuilder.Set(elem, true)\n\t\t}\n\t}\n\treturn MakeSetFromMap(builder.Map())\n}\n\nfunc ModuleUnionSymbol",
		New: "\t\tif _, ok := rhsSet.Get(elem); !ok {\n\t\t\tbuilder.Set(elem, true)\n\t\t}\n\t}\n\treturn MakeSetFromMap(builder.Map())\n}\n\nfunc ModuleUnionSymbol", Expect: "ModuleIntersectSymbol"})
	seed(Seed{Name: "forall-stops-on-witness", Prop: "C03", Rule: "OP-DECISION", File: tla + "builtins.go",
		Old: "\t\t\tif !helper(idx + 1) {\n\t\t\t\treturn false\n\t\t\t}", New: "\t\t\tif helper(idx + 1) {\n\t\t\t\treturn false\n\t\t\t}", Expect: "QuantifiedUniversal"})
	seed(Seed{Name: "div-adjusts-on-equal-signs", Prop: "C03", Rule: "OP-DECISION", File: tla + "symbols.go",
		Old: "(lhsNum < 0) != (rhsNum < 0)", New: "(lhsNum < 0) == (rhsNum < 0)", Expect: "floor-adjust"})
	seed(Seed{Name: "overflow-check-one-sided", Prop: "C03", Rule: "OP-DECISION", File: tla + "symbols.go",
		Old: "\trequire(result <= math.MaxInt32 && result >= math.MinInt32, \"integer overflow", New: "\trequire(result <= math.MaxInt32 || result >= math.MinInt32, \"integer overflow", Expect: "makeNumberChecked"})
	seed(Seed{Name: "set-equal-one-direction", Prop: "C05", Rule: "VAL-DECISION", File: tla + "value.go",
		Old: "\t\tit = oC.Iterator()\n\t\tfor !it.Done() {\n\t\t\tk, _, _ := it.Next()\n\t\t\t_, ok := c.Get(k)\n\t\t\tif !ok {\n\t\t\t\treturn false\n\t\t\t}\n\t\t}\n", New: "", Expect: "valueSet.Equal"})
	seed(Seed{Name: "absent-equals-present", Prop: "C05", Rule: "VAL-DECISION", File: tla + "value.go",
		Old: "\t} else if v.data == nil || other.data == nil {\n\t\treturn false", New: "\t} else if v.data == nil || other.data == nil {\n\t\treturn true", Expect: "Value.Equal"})
	seed(Seed{Name: "vclock-merge-keeps-smaller", Prop: "C18", Rule: "VAL-DECISION", File: tla + "vclock.go",
		Old: "\t\tif idx1Val > idx2Val {", New: "\t\tif idx1Val < idx2Val {", Expect: "VClock.Merge"})
	seed(Seed{Name: "vclock-merge-same-operand", Prop: "C18", Rule: "VCLOCK-MERGE", File: tla + "vclock.go",
		Old: "\tacc := self.clock\n", New: "\tacc := clock.clock\n", Expect: "VClock.Merge"})
	seed(Seed{Name: "string-printed-raw", Prop: "C05", Rule: "STR-QUOTE", File: tla + "value.go",
		Old: "\treturn strconv.Quote(v.AsString())", New: "\t_ = strconv.Quote\n\treturn \"\\\"\" + v.AsString() + \"\\\"\"", Expect: "valueString.String"})
	seed(Seed{Name: "oracle-reset-on-every-attempt", Prop: "C10", Rule: "FC-DECISION", File: "distsys/fairness.go",
		Old: "\tif pc != cnt.pc { // if different pc, reset everything", New: "\tif pc == cnt.pc { // if different pc, reset everything", Expect: "BeginCriticalSection"})
	seed(Seed{Name: "trace-read-not-recorded", Prop: "C18", Rule: "TRACE-DECISION", File: "distsys/trace/state.go",
		Old: "func (acc *EventState) RecordRead(name string, indices []tla.Value, value tla.Value) {\n\tif acc.Recorder == nil {", New: "func (acc *EventState) RecordRead(name string, indices []tla.Value, value tla.Value) {\n\tif acc.Recorder != nil {", Expect: "RecordRead"})
	seed(Seed{Name: "sink-clock-not-incremented", Prop: "C18", Rule: "TRACE-DECISION", File: "distsys/trace/vclock_sink.go",
		Old: "\tsink.clock = sink.clock.Inc(name, self)\n", New: "\t_, _ = name, self\n", Expect: "InitCriticalSection"})
	seed(Seed{Name: "indexed-local-write-dropped", Prop: "C01", Rule: "LOCAL-RES", File: "distsys/archetyperesource.go",
		Old: "\tres.parent.value = fn\n\treturn nil", New: "\t_ = fn\n\treturn nil", Expect: "localArchetypeSubResource.WriteValue"})
	seed(Seed{Name: "gcounter-merge-takes-smaller", Prop: "C12", Rule: "CRDT-DECISION", File: res + "gcounter.go",
		Old: "\t\tif v, ok := c.Get(id); !ok || v < val {", New: "\t\tif v, ok := c.Get(id); !ok || v > val {", Expect: "GCounter.Merge"})
	seed(Seed{Name: "clock-compare-never-concurrent", Prop: "C12", Rule: "CRDT-DECISION", File: res + "aworset.go",
		Old: "\t\t} else if res == LT && v1 > v2 {\n\t\t\tres = CC", New: "\t\t} else if res == LT && v1 > v2 {\n\t\t\tres = GT", Expect: "GCounter.compare"})
	seed(Seed{Name: "lww-merge-keeps-earlier", Prop: "C12", Rule: "CRDT-DECISION", File: res + "lww.go",
		Old: "\t\t\tselfTimeStamp := selfVal\n\t\t\tif otherTimeStamp.After(selfTimeStamp) {\n\t\t\t\ts.remSet = s.remSet.Set(id, otherTimeStamp)", New: "\t\t\tselfTimeStamp := selfVal\n\t\t\tif !otherTimeStamp.After(selfTimeStamp) {\n\t\t\t\ts.remSet = s.remSet.Set(id, otherTimeStamp)", Expect: "LWWSet.Merge"})
	seed(Seed{Name: "plog-pop-truncates-one-short", Prop: "C01", Rule: "PLOG-DECISION", File: "systems/raftkvs/persistentlog.go",
		Old: "\t\t\t\tindex: res.list.Len() - i - 1,", New: "\t\t\t\tindex: res.list.Len() - i,", Expect: "push-index"})
	seed(Seed{Name: "plog-commit-keeps-queue", Prop: "C01", Rule: "PLOG-DECISION", File: "systems/raftkvs/persistentlog.go",
		Old: "\t\t\tres.ops = nil\n", New: "", Expect: "forgets-queue"})
	seed(Seed{Name: "plog-snapshot-retaken", Prop: "C01", Rule: "SNAPSHOT-ONCE", File: "systems/raftkvs/persistentlog.go",
		Old: "\tif !res.hasOldList {\n\t\tres.oldList = res.list\n\t\tres.hasOldList = true\n\t}", New: "\tres.oldList = res.list\n\tres.hasOldList = true", Expect: "raftkvs.PersistentLog.WriteValue"})
	seed(Seed{Name: "relaxed-delivers-undecoded", Prop: "C06", Rule: "MB-DECISION", File: res + "relaxedmailboxes.go",
		Old: "\t\tif err != nil {\n\t\t\tlog.Printf(\"handleConn decode err = %s, value = %v\", err, value)\n\t\t\tcontinue\n\t\t}", New: "\t\tif err != nil {\n\t\t\tlog.Printf(\"handleConn decode err = %s, value = %v\", err, value)\n\t\t}", Expect: "relaxedMailboxesLocal.handleConn"})
	seed(Seed{Name: "monitor-state-not-recorded", Prop: "C19", Rule: "FD-WIRING", File: res + "fd.go",
		Old: "\tm.lock.Lock()\n\tm.states.Set(archetypeID, state)\n\tm.lock.Unlock()", New: "\tm.lock.Lock()\n\t_, _ = archetypeID, state\n\tm.lock.Unlock()", Expect: "Monitor.setState"})
	seed(Seed{Name: "fd-call-error-not-copied", Prop: "C19", Rule: "FD-WIRING", File: res + "fd.go",
		Old: "\t\tcase <-call.Done:\n\t\t\terr = call.Error\n", New: "\t\tcase <-call.Done:\n", Expect: "completed-call-error-examined"})
	seed(Seed{Name: "persistent-abort-skips-child", Prop: "C07", Rule: "RES-FORWARD", File: res + "persistent.go",
		Old: "\tres.hasNewValue = false\n\treturn res.wrappedRes.Abort(iface)", New: "\tif !res.hasNewValue {\n\t\treturn nil\n\t}\n\tres.hasNewValue = false\n\treturn res.wrappedRes.Abort(iface)", Expect: "Persistent.Abort:on-every-path"})
	seed(Seed{Name: "reject-reply-carries-working-copy", Prop: "C11", Rule: "TPC-COMMITTED-ONLY", File: res + "twopc.go",
		Old: "\t\tVersion: res.version,\n\t\tValue:   res.oldValue,", New: "\t\tVersion: res.version,\n\t\tValue:   res.value,", Expect: "makeReject"})
	seed(Seed{Name: "crdt-reply-value-reassigned", Prop: "C13", Rule: "CRDT-STABLE", File: res + "crdt.go",
		Old: "\t*reply = ReceiveValueResp{Value: res.getStableValue()}\n", New: "\t*reply = ReceiveValueResp{Value: res.getStableValue()}\n\treply.Value = res.value\n", Expect: "ReceiveValueResp.Value="})
	seed(Seed{Name: "hashmap-set-forgets-key", Prop: "C05", Rule: "HASHMAP-EQ", File: "distsys/hashmap/hashmap.go",
		Old: "\t\th.keys = append(h.keys, k)\n\t\th.m[hash] = append(h.m[hash], entry)\n\t} else {", New: "\t\th.m[hash] = append(h.m[hash], entry)\n\t} else {", Expect: "records-key"})
	seed(Seed{Name: "hashmap-colliding-key-not-listed", Prop: "C17", Rule: "HASHMAP-KEYS", File: "distsys/hashmap/hashmap.go",
		Old: "\t\t}\n\t\th.keys = append(h.keys, k)\n\t\th.m[hash] = append(h.m[hash], entry)\n", New: "\t\t}\n\t\th.m[hash] = append(h.m[hash], entry)\n", Expect: "records-key"})
	seed(Seed{Name: "length-view-drops-clock", Prop: "C18", Rule: "LEN-CLOCK", File: res + "tcpmailboxes.go",
		Old: "int32(len(res.readBacklog))), vclock)", New: "int32(len(res.readBacklog))), tla.VClock{})", Expect: "returns-count-with-merged-clock"})
	seed(Seed{Name: "length-view-merges-stale-backlog", Prop: "C18", Rule: "LEN-CLOCK", File: res + "relaxedmailboxes.go",
		Old: "\tchanLen := len(res.msgChannel)\n\tif len(res.readBacklog) == 0 && chanLen > 0 {\n\t\tres.readBacklog = append(res.readBacklog, <-res.msgChannel)\n\t}\n\tvar vclock tla.VClock\n\tfor _, elem := range res.readBacklog {",
		New: "\tchanLen := len(res.msgChannel)\n\tpending := res.readBacklog\n\tif len(res.readBacklog) == 0 && chanLen > 0 {\n\t\tres.readBacklog = append(res.readBacklog, <-res.msgChannel)\n\t}\n\tvar vclock tla.VClock\n\tfor _, elem := range pending {", Expect: "clock-covers-what-is-counted"})
	seed(Seed{Name: "fd-state-lock-held-across-sleep", Prop: "C19", Rule: "FD-LOCK-SHORT", File: res + "fd.go",
		Old: "\tres.lock.Lock()\n\tres.state = state\n\tres.lock.Unlock()\n", New: "\tres.lock.Lock()\n\tres.state = state\n\ttime.Sleep(res.pullInterval)\n\tres.lock.Unlock()\n", Expect: "setState"})
	seed(Seed{Name: "fd-dial-under-state-lock", Prop: "C19", Rule: "FD-LOCK-SHORT", File: res + "fd.go",
		Old: "func (res *SingleFailureDetector) ensureClient() error {\n", New: "func (res *SingleFailureDetector) ensureClient() error {\n\tres.lock.Lock()\n\tdefer res.lock.Unlock()\n", Expect: "ensureClient"})
	seed(Seed{Name: "either-arm-fixed", Prop: "C10", Rule: "FC-IDS", File: "systems/pbkvs/pbkvs.go",
		Old: "switch iface.NextFairnessCounter(\"AReplica.replicaLoop.0\", 2) {", New: "switch uint(0) {", Expect: "asks-the-oracle"})
	seed(Seed{Name: "with-takes-first-member", Prop: "C10", Rule: "FC-IDS", File: "systems/nestedcrdtimpl/NestedCRDTImpl.go",
		Old: "targetRead0.SelectElement(iface.NextFairnessCounter(\"ACRDTResource.receiveReq.1\", uint(targetRead0.AsSet().Len())))", New: "targetRead0.SelectElement(0)", Expect: "asks-the-oracle"})
	seed(Seed{Name: "file-commit-keeps-pending-write", Prop: "C01", Rule: "STORE-DECISION", File: res + "filesystem.go",
		Old: "\t\t\tres.writePending = nil\n\t\t\tdoneCh <- struct{}{}", New: "\t\t\tdoneCh <- struct{}{}", Expect: "forgets-pending-after-write"})
	seed(Seed{Name: "file-read-prefers-cache-over-own-write", Prop: "C01", Rule: "STORE-DECISION", File: res + "filesystem.go",
		Old: "\tif res.writePending != nil {\n\t\treturn tla.MakeString(*res.writePending), nil\n\t} else if res.cachedRead != nil {\n\t\treturn tla.MakeString(*res.cachedRead), nil\n\t} else {",
		New: "\tif res.cachedRead != nil {\n\t\treturn tla.MakeString(*res.cachedRead), nil\n\t} else if res.writePending != nil {\n\t\treturn tla.MakeString(*res.writePending), nil\n\t} else {", Expect: "file.ReadValue"})
	seed(Seed{Name: "file-write-keeps-read-cache", Prop: "C01", Rule: "STORE-DECISION", File: res + "filesystem.go",
		Old: "\tres.cachedRead = nil\n\tstrToWrite := value.AsString()", New: "\tstrToWrite := value.AsString()", Expect: "file.WriteValue:drops-read-cache"})
	seed(Seed{Name: "persistent-write-not-noted", Prop: "C01", Rule: "STORE-DECISION", File: res + "persistent.go",
		Old: "\tres.hasNewValue = true\n", New: "", Expect: "notes-every-write"})
	seed(Seed{Name: "persistent-store-failure-ignored", Prop: "C01", Rule: "STORE-DECISION", File: res + "persistent.go",
		Old: "\t\t\tif err != nil {\n\t\t\t\tpanic(err)\n\t\t\t}\n\t\t\tres.hasNewValue = false", New: "\t\t\tif err != nil {\n\t\t\t\tlog.Println(err)\n\t\t\t}\n\t\t\tres.hasNewValue = false", Expect: "Persistent.Commit"})
	seed(Seed{Name: "gcounter-encode-skips-zero-counts", Prop: "C12", Rule: "GOB-WHOLE", File: res + "gcounter.go",
		Old: "\t\tk, v, _ := it.Next()\n\t\tpair := GCounterKeyVal{K: k, V: v}\n\t\terr := encoder.Encode(&pair)", New: "\t\tk, v, _ := it.Next()\n\t\tif v == 0 {\n\t\t\tcontinue\n\t\t}\n\t\tpair := GCounterKeyVal{K: k, V: v}\n\t\terr := encoder.Encode(&pair)", Expect: "ships-every-element"})
	seed(Seed{Name: "aworset-encode-walks-derived-map", Prop: "C12", Rule: "GOB-WHOLE", File: res + "aworset.go",
		Old: "\tit = s.remMap.Iterator()\n\tfor !it.Done() {\n\t\tk, v, _ := it.Next()\n\t\tmaps.RemMap", New: "\tlive := s.remMap\n\tlive = live.Delete(tla.MakeString(\"\"))\n\tit = live.Iterator()\n\tfor !it.Done() {\n\t\tk, v, _ := it.Next()\n\t\tmaps.RemMap", Expect: "component-of-the-receiver"})
	seed(Seed{Name: "vclock-encode-forgets-component", Prop: "C05", Rule: "GOB-WHOLE", File: tla + "value.go",
		Old: "\tit := v.AsFunction().Iterator()\n\tfor !it.Done() {\n\t\tkey, value, _ := it.Next()\n\t\tfield := RecordField{", New: "\tit := v.AsFunction().Iterator()\n\tfor !it.Done() {\n\t\tkey, value, _ := it.Next()\n\t\tif value.data == nil {\n\t\t\tcontinue\n\t\t}\n\t\tfield := RecordField{", Expect: "valueFunction.GobEncode"})
	seed(Seed{Name: "outputchan-commit-keeps-buffer", Prop: "C06", Rule: "CH-DEFER", File: res + "channels.go",
		Old: "\t\tres.buffer = nil\n\t\tch <- struct{}{}", New: "\t\tch <- struct{}{}", Expect: "forgets-sent-values"})
	seed(Seed{Name: "broadcast-round-shares-one-deadline", Prop: "C13", Rule: "ONESHOT-FRESH", File: res + "crdt.go",
		Old: "\tcalls := hashmap.New[callWithTimeout]()\n\tfor _, id := range res.peerIds {\n\t\tif client, ok := res.conns.Get(id); ok {\n\t\t\tvar reply ReceiveValueResp\n\t\t\tcalls.Set(id, callWithTimeout{\n\t\t\t\tcall:        client.Go(\"CRDTRPCReceiver.ReceiveValue\", args, &reply, nil),\n\t\t\t\ttimeoutChan: time.After(res.config.sendTimeout),",
		New: "\troundTimeout := time.After(res.config.sendTimeout)\n\tcalls := hashmap.New[callWithTimeout]()\n\tfor _, id := range res.peerIds {\n\t\tif client, ok := res.conns.Get(id); ok {\n\t\t\tvar reply ReceiveValueResp\n\t\t\tcalls.Set(id, callWithTimeout{\n\t\t\t\tcall:        client.Go(\"CRDTRPCReceiver.ReceiveValue\", args, &reply, nil),\n\t\t\t\ttimeoutChan: roundTimeout,", Expect: "crdt.broadcast"})
	seed(Seed{Name: "vclock-merge-fastpath-returns-receiver", Prop: "C18", Rule: "VCLOCK-MERGE", File: tla + "vclock.go",
		Old: "\treturn VClock{\n\t\tclock: acc,\n\t}\n}\n\nfunc (clock VClock) Get", New: "\tif acc == self.clock {\n\t\treturn clock\n\t}\n\treturn VClock{\n\t\tclock: acc,\n\t}\n}\n\nfunc (clock VClock) Get", Expect: "returns-the-merged-clock"})
	seed(Seed{Name: "monitor-run-error-shadowed", Prop: "C17", Rule: "RUN-OUTCOME", File: res + "fd.go",
		Old: "\terr = ctx.Run()\n\t//log.Println(\"finished\", archetypeID, err)\n\tif err == nil {", New: "\tif err := ctx.Run(); err == nil {", Expect: "RunArchetype"})
	seed(Seed{Name: "prerun-before-epilogue", Prop: "C17", Rule: "CLOSE-ONCE", File: "distsys/mpcalctx.go",
		Old: "\tif hasAlreadyClosed {\n\t\treturn nil\n\t}\n", New: "\tif hasAlreadyClosed {\n\t\treturn nil\n\t}\n\tctx.preRun()\n", Expect: "epilogue-registered-right-after-the-gate"})
	seed(Seed{Name: "merger-folds-working-value-into-snapshot", Prop: "C13", Rule: "CRDT-SNAPSHOT", File: res + "crdt.go",
		Old: "\t\t\t\t\tres.oldValue = res.oldValue.Merge(mergeVal)", New: "\t\t\t\t\tres.oldValue = res.oldValue.Merge(res.value)", Expect: "snapshot-takes-received-state-only"})
	seed(Seed{Name: "monitor-conn-absolute-deadline", Prop: "C19", Rule: "DEADLINE-SCOPED", File: res + "fd.go",
		Old: "\t\tgo m.server.ServeConn(conn)", New: "\t\t_ = conn.SetDeadline(time.Now().Add(failureDetectorTimeout))\n\t\tgo m.server.ServeConn(conn)", Expect: "ListenAndServe"})
	seed(Seed{Name: "read-deadline-left-armed", Prop: "C06", Rule: "DEADLINE-SCOPED", File: res + "conn.go",
		Old: "\tn, err = rw.conn.Read(data)\n\tif deadlineErr := rw.conn.SetReadDeadline(time.Time{}); deadlineErr != nil {\n\t\treturn n, deadlineErr\n\t}\n", New: "\tn, err = rw.conn.Read(data)\n", Expect: "readWriterConnTimeout.Read"})
	seed(Seed{Name: "shutdown-test-under-state-change", Prop: "C19", Rule: "FD-FAILBRANCH", File: res + "fd.go",
		Old: "new state = %v. Due to rpc call error: %v\", res.archetypeID, oldState, failed, err)\n\t\t\t}\n\t\t\tif err == rpc.ErrShutdown {\n\t\t\t\tres.reDial = true\n\t\t\t}\n", New: "new state = %v. Due to rpc call error: %v\", res.archetypeID, oldState, failed, err)\n\t\t\t\tif err == rpc.ErrShutdown {\n\t\t\t\t\tres.reDial = true\n\t\t\t\t}\n\t\t\t}\n", Expect: "shutdown-tested-for-every-rpc-error"})
	seed(Seed{Name: "nested-commit-may-time-out", Prop: "C01", Rule: "NESTED-DECISION", File: res + "nestedarch.go",
		Old: "resp, err := res.performRequest(nestedArchetypeCommitReq)", New: "resp, err := res.performRequestOrAbort(nestedArchetypeCommitReq)", Expect: "Commit:request"})
	seed(Seed{Name: "nested-write-ignores-refusal", Prop: "C01", Rule: "NESTED-DECISION", File: res + "nestedarch.go",
		Old: "return res.handleResponseValue(resp, true, nestedArchetypeWriteAck)", New: "return res.handleResponseValue(resp, false, nestedArchetypeWriteAck)", Expect: "WriteValue:accepted-responses"})
	seed(Seed{Name: "nested-read-skips-tag-check", Prop: "C01", Rule: "NESTED-DECISION", File: res + "nestedarch.go",
		Old: "\terr = res.handleResponseValue(resp, true, nestedArchetypeReadAck)\n\tif err != nil {\n\t\treturn tla.Value{}, err\n\t}\n", New: "\t_ = res.handleResponseValue(resp, true, nestedArchetypeReadAck)\n", Expect: "ReadValue"})
	seed(Seed{Name: "nested-refusal-accepted-anywhere", Prop: "C01", Rule: "NESTED-DECISION", File: res + "nestedarch.go",
		Old: "if allowAborted && tpe.Equal(nestedArchetypeAborted) {", New: "if allowAborted || tpe.Equal(nestedArchetypeAborted) {", Expect: "handleResponseValue"})
	seed(Seed{Name: "shared-cell-abort-keeps-write", Prop: "C07", Rule: "CELL-RESTORE", File: "distsys/archetyperesource.go",
		Old: "\tres.value = res.oldValue\n\treturn nil", New: "\treturn nil", Expect: "LocalArchetypeResource"})
	seed(Seed{Name: "range-skips-its-elements", Prop: "C03", Rule: "OP-DECISION", File: tla + "symbols.go",
		Old: "\tfor i := from; i <= to; i++ {", New: "\tfor i := from; i < to; i++ {", Expect: "ModuleDotDotSymbol"})
	seed(Seed{Name: "crossproduct-skips-a-level", Prop: "C03", Rule: "OP-DECISION", File: tla + "builtins.go",
		Old: "helper(tuple.Append(elem), idx+1)", New: "helper(tuple.Append(elem), idx+2)", Expect: "CrossProduct"})
	seed(Seed{Name: "subseq-bounds-one-sided", Prop: "C03", Rule: "OP-DECISION", File: tla + "symbols.go",
		Old: "require(from <= to && from >= 1 && to <= tuple.Len(),", New: "require(from <= to && from >= 1 || to <= tuple.Len(),", Expect: "ModuleSubSeq"})
	seed(Seed{Name: "except-evaluates-before-last-key", Prop: "C03", Rule: "OP-DECISION", File: tla + "builtins.go",
		Old: "\t\tif len(keys) == 0 {\n\t\t\treturn value(source)", New: "\t\tif len(keys) <= 1 {\n\t\t\treturn value(source)", Expect: "FunctionSubstitution"})
	seed(Seed{Name: "set-decode-drops-elements", Prop: "C05", Rule: "GOB-REBUILD", File: tla + "value.go",
		Old: "\t\tbuilder.Set(elem, true)\n\t}\n}\n\nfunc (v *valueSet) IsSet()", New: "\t}\n}\n\nfunc (v *valueSet) IsSet()", Expect: "valueSet.GobDecode"})
	seed(Seed{Name: "lww-decode-forgets-removals", Prop: "C12", Rule: "GOB-REBUILD", File: res + "lww.go",
		Old: "\t\ts.remSet = builder.Map()\n", New: "", Expect: "installs-remSet"})
	seed(Seed{Name: "vclock-inc-restarts-present-component", Prop: "C18", Rule: "VAL-DECISION", File: tla + "vclock.go",
		Old: "\tidxVal, ok := clock.clock.Get(keyTuple)\n\tif !ok {", New: "\tidxVal, ok := clock.clock.Get(keyTuple)\n\tif ok {", Expect: "VClock.Inc"})
	seed(Seed{Name: "wrapcausal-forgets-carried-clock", Prop: "C18", Rule: "VAL-DECISION", File: tla + "value.go",
		Old: "\tif existingClock := value.GetVClock(); existingClock != nil {\n\t\tclock = clock.Merge(*existingClock)\n\t}\n", New: "", Expect: "WrapCausal"})
	seed(Seed{Name: "select-element-off-by-one", Prop: "C10", Rule: "SELECT-DECISION", File: tla + "value.go",
		Old: "\tfor ; i < idx && !it.Done(); i++ {", New: "\tfor ; i <= idx && !it.Done(); i++ {", Expect: "SelectElement"})
	seed(Seed{Name: "function-single-bound-keyed-by-tuple", Prop: "C03", Rule: "FUNC-DECISION", File: tla + "value.go",
		Old: "\t\t\tif len(bodyArgs) == 1 {\n\t\t\t\tbuilder.Set(bodyArgs[0], body(bodyArgs))", New: "\t\t\tif len(bodyArgs) == 0 {\n\t\t\t\tbuilder.Set(bodyArgs[0], body(bodyArgs))", Expect: "MakeFunction"})
	seed(Seed{Name: "merge-second-loop-reuses-iterator", Prop: "C12", Rule: "ITER-FRESH", File: res + "aworset.go",
		Old: "\ti = remK.Iterator()\n", New: "", Expect: "AWORSet.Merge"})
}
