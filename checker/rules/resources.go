package rules

import (
	"fmt"
	"go/ast"
	"go/token"
	"go/types"
	"sort"
	"strings"

	"golang.org/x/tools/go/cfg"

	"pgoverif/checker/an"
	"pgoverif/checker/core"
	"pgoverif/checker/load"
)

func init() {
	register(&core.Rule{ID: "RES-OWNER", Props: []string{"C01", "C17"}, Floor: 25,
		Doc: "lifecycle methods of an ArchetypeResource (Abort, PreCommit, Commit, ReadValue, WriteValue, Index, Close) are called only by the critical-section driver or by the same-named method of a wrapping resource",
		Run: runResOwner})
	register(&core.Rule{ID: "RES-RESTORE", Props: []string{"C01", "C06", "C13"}, Floor: 30,
		Doc: "every field a resource may write in ReadValue/WriteValue/Index is written by its Abort (or is in the reasoned exception table); snapshot fields Abort restores from are written by Commit or by a section operation",
		Run: runResRestore})
	register(&core.Rule{ID: "RES-FORWARD", Props: []string{"C01", "C17", "C07"}, Floor: 12,
		Doc: "a resource that holds child resources forwards Abort/PreCommit/Commit (and Close) to them; Index records the child it returns in the dirty set",
		Run: runResForward})
	register(&core.Rule{ID: "RES-PUBLISH", Props: []string{"C01", "C06"}, Floor: 30,
		Doc: "externally observable sinks (send on a user channel, file / database writes) are reachable only from Commit, never from ReadValue/WriteValue/Index/PreCommit/Abort",
		Run: runResPublish})
	register(&core.Rule{ID: "ERR-SENTINEL", Props: []string{"C01"}, Floor: 15,
		Doc: "ErrCriticalSectionAborted / ErrDone are compared by identity in Run, so they are only ever returned, sent, assigned or compared bare - never wrapped",
		Run: runErrSentinel})
}

var lifecycle = []string{"Abort", "PreCommit", "Commit", "ReadValue", "WriteValue", "Index", "Close"}

func isLifecycle(name string) bool {
	for _, m := range lifecycle {
		if m == name {
			return true
		}
	}
	return false
}

func resourceIface(c *core.Ctx, e *Env) *types.Interface {
	n := e.Ix.LookupType(an.PkgDistsys, "ArchetypeResource")
	if n == nil {
		c.Lost("distsys.ArchetypeResource", "interface not found")
		return nil
	}
	return an.InterfaceOf(n)
}

func implementsRes(t types.Type, iface *types.Interface) bool {
	if t == nil || iface == nil {
		return false
	}
	if types.Implements(t, iface) {
		return true
	}
	if _, isPtr := t.(*types.Pointer); !isPtr {
		if _, isIface := t.Underlying().(*types.Interface); !isIface {
			return types.Implements(types.NewPointer(t), iface)
		}
	}
	return false
}

// lifecycleCall: if call invokes a lifecycle method on a receiver whose static
// type implements ArchetypeResource, return the method name and receiver expr.
func lifecycleCall(info *types.Info, call *ast.CallExpr, iface *types.Interface) (string, ast.Expr, bool) {
	sel, ok := an.Unparen(call.Fun).(*ast.SelectorExpr)
	if !ok {
		return "", nil, false
	}
	fn := an.CalleeFunc(info, call)
	if fn == nil || !isLifecycle(fn.Name()) {
		return "", nil, false
	}
	s, ok := info.Selections[sel]
	if !ok || s.Kind() != types.MethodVal {
		return "", nil, false
	}
	if !implementsRes(s.Recv(), iface) {
		return "", nil, false
	}
	return fn.Name(), sel.X, true
}

// conditionalForward: wrappers whose forwarding of a lifecycle method is legitimately conditional, with the boolean field
// the condition must establish. localShared touches the shared cell only while it holds the manager's lock.
var conditionalForward = map[string]string{
	"resources.localShared.Abort":  "hasLock",
	"resources.localShared.Commit": "hasLock",
}

// ------------------------------------------------------------------ RES-OWNER

func runResOwner(c *core.Ctx) {
	e := EnvOf(c.Prog)
	iface := resourceIface(c, e)
	if iface == nil {
		return
	}
	driver := map[string]map[string]bool{
		"distsys.MPCalContext.abort":                             {"Abort": true},
		"distsys.MPCalContext.commit":                            {"PreCommit": true, "Commit": true},
		"distsys.MPCalContext.cleanupResources":                  {"Close": true},
		"distsys.ArchetypeInterface.Read":                        {"Index": true, "ReadValue": true},
		"distsys.ArchetypeInterface.Write":                       {"Index": true, "WriteValue": true},
		"distsys.ArchetypeInterface.RequireArchetypeResourceRef": {"ReadValue": true},
	}
	// exception table: caller -> method -> reason
	except := map[string]map[string]string{
		"resources.NewMailboxesLength": {"Index": "construction-time lookup of the mailbox the length resource observes (no critical section exists yet)"},
	}
	for name := range driver {
		parts := strings.Split(name, ".")
		if e.Ix.LookupMethod(an.PkgDistsys, parts[1], parts[2]) == nil {
			c.Lost(name, "driver function not found")
		}
	}
	sites := 0
	for _, fn := range e.Ix.Funcs() {
		info := fn.Pkg.Info
		seq := map[string]int{}
		ast.Inspect(fn.Body(), func(n ast.Node) bool {
			call, ok := n.(*ast.CallExpr)
			if !ok {
				return true
			}
			m, recv, ok := lifecycleCall(info, call, iface)
			if !ok {
				return true
			}
			sites++
			seq[m]++
			key := fmt.Sprintf("%s->%s(%s)", fn.Name(), m, an.ExprString(recv))
			if seq[m] > 1 {
				key = fmt.Sprintf("%s#%d", key, seq[m])
			}
			caller := fn.Name()
			switch {
			case driver[caller][m]:
				c.Ok(key, call.Pos(), "driver call")
			case fn.Obj != nil && fn.Obj.Name() == m && an.RecvNamed(fn.Obj) != nil && implementsRes(an.RecvNamed(fn.Obj), iface):
				c.Ok(key, call.Pos(), "forwarding inside the same-named method of a resource")
			case except[caller][m] != "":
				c.Ok(key, call.Pos(), "exception: %s", except[caller][m])
			default:
				c.Bad(key, call.Pos(), "%s of an archetype resource is called outside the critical-section driver and outside a forwarding %s method: it bypasses dirty tracking / two-phase commit", m, m)
			}
			return true
		})
	}
	c.Count("lifecycle call sites", sites)
}

// ------------------------------------------------------------------ implementations

type resImpl struct {
	named   *types.Named
	methods map[string]*an.Func // resolved (possibly promoted) declarations with bodies
	own     map[string]bool     // declared directly on the type
}

func resourceImpls(e *Env, iface *types.Interface) []*resImpl {
	var out []*resImpl
	for _, n := range e.Ix.Implementations(iface) {
		ri := &resImpl{named: n, methods: map[string]*an.Func{}, own: map[string]bool{}}
		for _, m := range lifecycle {
			f, _ := e.Ix.ResolveMethod(n, m)
			if f != nil {
				ri.methods[m] = f
				ri.own[m] = an.RecvNamed(f.Obj) != nil && an.RecvNamed(f.Obj).Obj() == n.Obj()
			}
		}
		out = append(out, ri)
	}
	return out
}

// ------------------------------------------------------------------ RES-RESTORE

// restoreExceptions: Type.field -> reason the field need not be written by Abort.
var restoreExceptions = map[string]string{
	"distsys.LocalArchetypeResource.clock":         "monotone trace metadata (vector clock), never read by programs; not part of the transactional state",
	"resources.IncMap.realizedMap":                 "memoised child resources; each child aborts itself through dirtyElems",
	"resources.tcpMailboxesRemote.conn":            "connection cache; the receiver discards an unfinished batch when it sees the next Begin",
	"resources.tcpMailboxesRemote.connEncoder":     "connection cache (see conn)",
	"resources.tcpMailboxesRemote.connDecoder":     "connection cache (see conn)",
	"resources.relaxedMailboxesRemote.conn":        "connection cache",
	"resources.relaxedMailboxesRemote.connEncoder": "connection cache",
	"resources.relaxedMailboxesRemote.connDecoder": "connection cache",
	"resources.relaxedMailboxesRemote.dialCount":   "log-throttling counter, not state",
	"resources.relaxedMailboxesRemote.hasSent":     "non-transactional by documented contract: Abort panics once a message was sent (relaxed mailboxes are claimed only for sections that commit)",
	"resources.crdt.oldValue":                      "the snapshot itself: taken by the first write of a section, consumed by Abort",
	"resources.crdt.needBroadcastCount":            "broadcast budget, monotone; see C13 CRDT-ARM",
	"resources.nestedArchetype.requestTimer":       "cached timer object",
	"raftkvs.PersistentLog.vclock":                 "trace metadata (vector clock)",
	"raftres/raft.PersistentLog.vclock":            "trace metadata (vector clock)",
	"resources.TwoPCArchetypeResource.timers":      "debug timing table (timersEnabled=false)",
	"nestedcrdtimpl.TimerResource.timer":           "environment timer: the spec models a timeout as a nondeterministic read, a tick consumed by an aborted attempt is indistinguishable from a later tick",
	"raftres/raft.TimerResource.timer":             "environment timer (see nestedcrdtimpl.TimerResource.timer)",
}

// restoreTypeExceptions: whole types excluded, with reason.
var restoreTypeExceptions = map[string]string{
	"distsys.localArchetypeSubResource": "a view onto its parent LocalArchetypeResource, which is the registered dirty handle and restores the value itself",
}

func init() {
	register(&core.Rule{ID: "CELL-RESTORE", Props: []string{"C07"}, Floor: 3,
		Doc: "the RES-RESTORE obligations of the cell behind a shared variable and of its wrappers (LocalArchetypeResource, its indexed view, localShared, Persistent): Abort restores every field the section operations write, so the value other sharers find after an aborted section is the committed one - releasing the lock at Abort is serializable only if the cell was rolled back first",
		Run: func(c *core.Ctx) {
			runResRestore(c)
			kept := c.Obs[:0]
			for _, o := range c.Obs {
				if strings.Contains(o.Construct, "LocalArchetypeResource") || strings.Contains(o.Construct, "localArchetypeSubResource") ||
					strings.HasPrefix(o.Construct, "resources.localShared") || strings.HasPrefix(o.Construct, "resources.Persistent") {
					kept = append(kept, o)
				}
			}
			c.Obs = kept
		}})
}

func runResRestore(c *core.Ctx) {
	e := EnvOf(c.Prog)
	iface := resourceIface(c, e)
	if iface == nil {
		return
	}
	impls := resourceImpls(e, iface)
	c.Count("ArchetypeResource implementations", len(impls))
	if len(impls) < 30 {
		c.Lost("implementations", "only %d ArchetypeResource implementations found (expected >= 30)", len(impls))
	}
	usedExceptions := map[string]bool{}
	implSet := map[*types.TypeName]bool{}
	for _, ri := range impls {
		implSet[ri.named.Obj()] = true
	}
	for _, ri := range impls {
		tk := an.TypeKey(ri.named)
		if why, ok := restoreTypeExceptions[tk]; ok {
			c.Ok(tk, ri.named.Obj().Pos(), "exception (whole type): %s", why)
			continue
		}
		abort := ri.methods["Abort"]
		if abort == nil {
			c.Lost(tk+".Abort", "no Abort body resolved")
			continue
		}
		W := map[*types.Var]token.Pos{}
		funcs := 0
		for _, m := range []string{"ReadValue", "WriteValue", "Index"} {
			if f := ri.methods[m]; f != nil {
				es := e.Fx.Of(f)
				funcs += es.Funcs
				for k, v := range es.Writes {
					if _, ok := W[k]; !ok {
						W[k] = v
					}
				}
			}
		}
		A := e.Fx.Of(abort)
		K := map[*types.Var]token.Pos{}
		if f := ri.methods["Commit"]; f != nil {
			K = e.Fx.Of(f).Writes
		}
		c.Count("function bodies summarised", funcs+A.Funcs)
		abortPanics := alwaysPanics(abort)
		var fields []*types.Var
		for f := range W {
			fields = append(fields, f)
		}
		sort.Slice(fields, func(i, j int) bool { return e.Ix.FieldKey(fields[i]) < e.Ix.FieldKey(fields[j]) })
		if len(fields) == 0 {
			c.Ok(tk, ri.named.Obj().Pos(), "section operations write no field (nothing to restore)")
		}
		for _, f := range fields {
			fk := e.Ix.FieldKey(f)
			key := tk + ":" + fk
			if !f.IsField() {
				continue
			}
			// only state of resources is transactional state: fields of the context, the trace sink or
			// library containers (hashmap internals are accounted to the holder's field by the mutator table) are not
			if owner := e.Ix.FieldOwner(f); owner == nil || !implSet[owner.Obj()] {
				continue
			}
			if _, ok := A.Writes[f]; ok {
				c.Ok(key, W[f], "written by a section operation and by Abort")
				continue
			}
			if why, ok := restoreExceptions[fk]; ok {
				usedExceptions[fk] = true
				c.Ok(key, W[f], "exception: %s", why)
				continue
			}
			if abortPanics {
				c.Ok(key, W[f], "Abort of this type always panics (non-transactional by contract)")
				continue
			}
			c.Bad(key, W[f], "field %s may be written during a critical section (by ReadValue/WriteValue/Index of %s) but %s.Abort never writes it: state changed by a failed attempt survives the rollback", fk, tk, tk)
		}
		// snapshot fields: fields read on the right-hand side of assignments in Abort whose
		// left-hand side is a field in W
		if abort != nil && ri.own["Abort"] {
			info := abort.Pkg.Info
			ast.Inspect(abort.Body(), func(n ast.Node) bool {
				as, ok := n.(*ast.AssignStmt)
				if !ok || len(as.Lhs) != len(as.Rhs) {
					return true
				}
				for i, l := range as.Lhs {
					lf := an.SelectedField(info, l)
					if lf == nil {
						continue
					}
					if _, inW := W[lf]; !inW {
						continue
					}
					rf := an.SelectedField(info, as.Rhs[i])
					if rf == nil || rf == lf {
						continue
					}
					key := tk + ":snapshot:" + e.Ix.FieldKey(rf)
					_, inK := K[rf]
					_, inWr := W[rf]
					if inK || inWr {
						c.Ok(key, as.Pos(), "Abort restores %s from %s, which is maintained by Commit or by the section operations", lf.Name(), rf.Name())
					} else {
						c.Bad(key, as.Pos(), "Abort restores %s from snapshot field %s, but neither Commit nor any section operation ever writes %s: after a commit the next abort would restore a stale value", lf.Name(), rf.Name(), rf.Name())
					}
				}
				return true
			})
		}
	}
	for k := range restoreExceptions {
		if !usedExceptions[k] {
			c.Count("unused exception entries", 1)
		}
	}
}

// alwaysPanics: the function body's first statement is an unconditional panic.
func alwaysPanics(f *an.Func) bool {
	if f == nil || len(f.Body().List) == 0 {
		return false
	}
	es, ok := f.Body().List[0].(*ast.ExprStmt)
	if !ok {
		return false
	}
	call, ok := es.X.(*ast.CallExpr)
	return ok && an.IsBuiltin(f.Pkg.Info, call, "panic")
}

// ------------------------------------------------------------------ RES-FORWARD

// childHolder describes how type T holds children.
func holdsChildren(e *Env, n *types.Named, iface *types.Interface) (fields []*types.Var, collection bool) {
	st, ok := n.Underlying().(*types.Struct)
	if !ok {
		return nil, false
	}
	hm := e.Ix.LookupType(an.PkgHashmap, "HashMap")
	for i := 0; i < st.NumFields(); i++ {
		f := st.Field(i)
		if f.Embedded() {
			continue
		}
		t := f.Type()
		if _, isIface := t.Underlying().(*types.Interface); isIface && implementsRes(t, iface) {
			fields = append(fields, f)
			continue
		}
		if nt := an.NamedOf(t); nt != nil && hm != nil && nt.Origin().Obj() == hm.Obj() && nt.TypeArgs().Len() == 1 {
			if implementsRes(nt.TypeArgs().At(0), iface) {
				fields = append(fields, f)
				collection = true
			}
		}
	}
	return
}

func runResForward(c *core.Ctx) {
	e := EnvOf(c.Prog)
	iface := resourceIface(c, e)
	if iface == nil {
		return
	}
	except := map[string]string{
		"resources.localShared.PreCommit": "the shared cell is a LocalArchetypeResource whose PreCommit is a constant nil",
		"resources.localShared.Close":     "the cell is shared between contexts, not owned by this handle",
	}
	var skeletons = map[string]map[string]string{}
	holders := 0
	for _, ri := range resourceImpls(e, iface) {
		tk := an.TypeKey(ri.named)
		fields, coll := holdsChildren(e, ri.named, iface)
		// localShared holds its cell through the manager
		viaManager := tk == "resources.localShared"
		if len(fields) == 0 && !viaManager {
			continue
		}
		holders++
		ms := []string{"Abort", "PreCommit", "Commit", "Close"}
		if !coll {
			ms = append(ms, "ReadValue", "WriteValue", "Index")
		}
		for _, m := range ms {
			key := tk + "." + m
			f := ri.methods[m]
			if f == nil {
				c.Lost(key, "method body not resolved")
				continue
			}
			if !ri.own[m] {
				continue // promoted from an embedded holder, checked there
			}
			if why, ok := except[key]; ok {
				c.Ok(key, f.Pos(), "exception: %s", why)
				continue
			}
			info := f.Pkg.Info
			forwards := false
			inLoopOverDirty := false
			var callees []string
			ast.Inspect(f.Body(), func(n ast.Node) bool {
				call, ok := n.(*ast.CallExpr)
				if !ok {
					return true
				}
				if fn := an.CalleeFunc(info, call); fn != nil {
					callees = append(callees, fn.Name())
				}
				name, _, ok := lifecycleCall(info, call, iface)
				if ok && name == m {
					forwards = true
				}
				return true
			})
			if coll {
				// the forwarding call must sit in a loop that runs once per key of <field>.Keys() of the dirty (or whole, for
				// Close) collection - a range or a counting loop over the call or over a local that holds its result - and
				// every iteration must reach it
				want := "dirtyElems"
				if m == "Close" {
					want = "" // any non-dirty collection: all realised / configured elements
				}
				isKeys := func(x ast.Expr) bool {
					call, ok := an.Unparen(an.ResolveLocal(info, f.Body(), x)).(*ast.CallExpr)
					if !ok {
						return false
					}
					sel, ok := an.Unparen(call.Fun).(*ast.SelectorExpr)
					if !ok || sel.Sel.Name != "Keys" {
						return false
					}
					fld := an.SelectedField(info, sel.X)
					if fld == nil {
						return false
					}
					return (want != "" && fld.Name() == want) || (want == "" && fld.Name() != "dirtyElems")
				}
				g := e.Graph(f)
				ast.Inspect(f.Body(), func(n ast.Node) bool {
					st, ok := n.(ast.Stmt)
					if !ok {
						return true
					}
					body, _, ok := perElementLoop(info, st, isKeys)
					if !ok || body == nil {
						return true
					}
					isForward := func(k ast.Node) bool {
						ce, ok := k.(*ast.CallExpr)
						if !ok {
							return false
						}
						name, _, ok := lifecycleCall(info, ce, iface)
						return ok && name == m
					}
					has := false
					ast.Inspect(body, func(k ast.Node) bool {
						if _, isLit := k.(*ast.FuncLit); isLit {
							return false
						}
						if isForward(k) {
							has = true
						}
						return true
					})
					if !has {
						return true
					}
					kind := cfg.KindForBody
					if _, isRange := st.(*ast.RangeStmt); isRange {
						kind = cfg.KindRangeBody
					}
					if bb := g.BlockOfStmt(st, kind); bb != nil && g.PassesWithin(bb, body.Pos(), body.End(), isForward) {
						inLoopOverDirty = true
					}
					return true
				})
				sort.Strings(callees)
				if skeletons[m] == nil {
					skeletons[m] = map[string]string{}
				}
				skeletons[m][tk] = strings.Join(callees, ",")
			}
			switch {
			case !forwards:
				c.Bad(key, f.Pos(), "%s holds child resources but its %s never calls %s on them: the children are left in their mid-section state", tk, m, m)
			case coll && !inLoopOverDirty:
				if m == "Close" {
					c.Bad(key, f.Pos(), "%s.Close does not range over all realised/configured elements (it must close every element, not only the dirty ones)", tk)
				} else {
					c.Bad(key, f.Pos(), "%s.%s does not forward to every element of dirtyElems", tk, m)
				}
			default:
				c.Ok(key, f.Pos(), "forwards %s to its children", m)
			}
			// a single-child wrapper forwards on every path: in its own body, or in a literal (goroutine / deferred) that its body
			// always reaches. The one accepted condition is the wrapper's own "I hold the child's lock" flag (conditionalForward).
			if forwards && !coll && (m == "Abort" || m == "PreCommit" || m == "Commit" || m == "Close") {
				uncond := false
				why := ""
				for _, b := range bodiesOf(f) {
					g := graphOfBody(e, f.Pkg, f, b)
					isFwd := func(a ast.Node) bool {
						call, ok := a.(*ast.CallExpr)
						if !ok {
							return false
						}
						name, _, ok := lifecycleCall(info, call, iface)
						return ok && name == m
					}
					fw := g.FindAtoms(isFwd)
					if len(fw) == 0 {
						continue
					}
					if okp, _ := g.MustPass(nil, isFwd, nil); okp {
						// the literal itself must be reached on every path of the declaration body
						if b.lit == nil {
							uncond = true
						} else if at := e.Graph(f).AtomOf(b.lit); at != nil {
							if okl, _ := e.Graph(f).MustPass(nil, func(a ast.Node) bool { return a == at }, nil); okl {
								uncond = true
							}
						}
						continue
					}
					// conditional: accepted only under the flag listed for this method
					if flagName, ok := conditionalForward[key]; ok {
						all := true
						for _, a := range fw {
							if !guardedWhereIn(e, info, g, a, func(ex ast.Expr, val bool) bool {
								fv := an.SelectedField(info, ex)
								return fv != nil && fv.Name() == flagName && val
							}) {
								all = false
							}
						}
						if all {
							uncond = true
							why = " (only while " + flagName + ", by design)"
						}
					}
				}
				c.Check(uncond, key+":on-every-path", f.Pos(), "the child's "+m+" is reached on every path"+why,
					fmt.Sprintf("%s.%s can return without calling %s on the wrapped resource: whatever the child did in this section (a lock it took on first access, an element written through Index) is never rolled back / committed / released", tk, m, m))
			}
		}
		// Index of a collection holder records the returned child as dirty on every path
		if coll && ri.own["Index"] {
			f := ri.methods["Index"]
			g := e.Graph(f)
			info := f.Pkg.Info
			marks := g.FindAtoms(func(a ast.Node) bool {
				call, ok := a.(*ast.CallExpr)
				if !ok {
					return false
				}
				fn := an.CalleeFunc(info, call)
				if fn == nil || fn.Name() != "Set" {
					return false
				}
				sel, ok := an.Unparen(call.Fun).(*ast.SelectorExpr)
				if !ok {
					return false
				}
				fld := an.SelectedField(info, sel.X)
				return fld != nil && fld.Name() == "dirtyElems"
			})
			rets := g.FindAtoms(func(a ast.Node) bool {
				r, ok := a.(*ast.ReturnStmt)
				if !ok || len(r.Results) == 0 {
					return false
				}
				if id, ok := an.Unparen(r.Results[0]).(*ast.Ident); ok && id.Name == "nil" {
					return false
				}
				return true
			})
			for i, r := range rets {
				key := fmt.Sprintf("%s.Index:return#%d", tk, i+1)
				dom := false
				for _, mk := range marks {
					if g.Dominates(mk, r) {
						dom = true
					}
				}
				if dom {
					c.Ok(key, r.Pos(), "the returned child was recorded in dirtyElems")
				} else {
					c.Bad(key, r.Pos(), "Index returns a child resource on a path that never records it in dirtyElems: the section's effects on that child are neither committed nor rolled back")
				}
				// the child handed out is the one recorded, and it is the stable child of that index: either looked up
				// (and found) in the holder's map, or created and stored there before being returned
				v := an.ObjOf(info, r.(*ast.ReturnStmt).Results[0])
				if v == nil {
					continue
				}
				sameMarked := false
				for _, mk := range marks {
					if call := mk.(*ast.CallExpr); len(call.Args) == 2 && an.ObjOf(info, call.Args[1]) == v && g.Dominates(mk, r) {
						sameMarked = true
					}
				}
				c.Check(sameMarked, key+"-is-the-recorded-child", r.Pos(), "the child returned is the one recorded as dirty", "the child recorded in dirtyElems is not the one returned: the returned child's effects escape commit/abort")
				stable, why := false, "the returned child is neither looked up in nor stored into the holder's element map"
				getField := func(call *ast.CallExpr, name string) *types.Var {
					fn := an.CalleeFunc(info, call)
					if fn == nil || fn.Name() != name {
						return nil
					}
					sel, ok := an.Unparen(call.Fun).(*ast.SelectorExpr)
					if !ok {
						return nil
					}
					return an.SelectedField(info, sel.X)
				}
				elemMaps := map[*types.Var]bool{}
				g.AllAtoms(func(a ast.Node) {
					if call, ok := a.(*ast.CallExpr); ok {
						if f := getField(call, "Get"); f != nil && f.Name() != "dirtyElems" {
							elemMaps[f] = true
						}
					}
				})
				// every definition of the returned variable that reaches this return is either a successful lookup in the
				// element map (no path on which the lookup's ok result is not known to be true) or a creation that is stored
				// into the element map on every path to the return
				defs := g.FindAtoms(func(a ast.Node) bool {
					as, ok := a.(*ast.AssignStmt)
					return ok && len(as.Lhs) >= 1 && an.ObjOf(info, as.Lhs[0]) == v && len(as.Rhs) == 1
				})
				isDef := func(x ast.Node) bool {
					for _, d := range defs {
						if d == x {
							return true
						}
					}
					return false
				}
				reaching := 0
				stable = true
				for _, a := range defs {
					a := a
					if !g.Search(an.Query{From: a, Target: func(x ast.Node) bool { return x == r }, Avoid: func(x ast.Node) bool { return x != a && isDef(x) }}).Found {
						continue
					}
					reaching++
					as := a.(*ast.AssignStmt)
					call, isCall := an.Unparen(as.Rhs[0]).(*ast.CallExpr)
					if isCall {
						if f := getField(call, "Get"); f != nil && elemMaps[f] && len(as.Lhs) == 2 {
							okObj := an.ObjOf(info, as.Lhs[1])
							knownTrue := func(from *cfg.Block, i int) bool {
								cd, _ := g.Cond(from)
								if cd == nil || okObj == nil || len(from.Succs) != 2 {
									return true
								}
								return !an.Implies(cd, i == 0, func(e ast.Expr, val bool) bool { return val && an.ObjOf(info, e) == okObj })
							}
							reassigned := func(x ast.Node) bool {
								if x == a {
									return false
								}
								if as2, ok := x.(*ast.AssignStmt); ok {
									for _, l := range as2.Lhs {
										if an.ObjOf(info, l) == okObj {
											return true
										}
									}
								}
								return false
							}
							if okObj == nil || g.Search(an.Query{From: a, Target: func(x ast.Node) bool { return x == r }, Edges: knownTrue, Feasible: true,
								Avoid: func(x ast.Node) bool { return (x != a && isDef(x)) || reassigned(x) }}).Found {
								stable = false
								why = "the child looked up in the element map is returned although the lookup may have failed (not guarded by ok)"
							}
							continue
						}
					}
					// created: must be stored into an element map before being returned
					isStore := func(x ast.Node) bool {
						c2, ok := x.(*ast.CallExpr)
						if !ok || len(c2.Args) != 2 || an.ObjOf(info, c2.Args[1]) != v {
							return false
						}
						f := getField(c2, "Set")
						return f != nil && elemMaps[f]
					}
					if g.Search(an.Query{From: a, Target: func(x ast.Node) bool { return x == r }, Feasible: true,
						Avoid: func(x ast.Node) bool { return (x != a && isDef(x)) || isStore(x) }}).Found {
						stable = false
						why = "a freshly created child is returned without being stored in the element map: the next access to this index creates another child and the element's committed state is lost"
					}
				}
				if reaching == 0 {
					stable = false
				}
				c.Check(stable, key+"-stable-child", r.Pos(), "the child is the found element, or a created one stored before use", why)
			}
		}
	}
	// sibling cross-check of the collection holders
	for m, byType := range skeletons {
		if len(byType) < 2 {
			continue
		}
		var ks []string
		for k := range byType {
			ks = append(ks, k)
		}
		sort.Strings(ks)
		ref := byType[ks[0]]
		same := true
		for _, k := range ks[1:] {
			if byType[k] != ref {
				same = false
			}
		}
		key := "siblings(" + strings.Join(ks, ",") + ")." + m
		pos := token.NoPos
		if same {
			c.Ok(key, pos, "identical callee skeleton: %s", ref)
		} else {
			var parts []string
			for _, k := range ks {
				parts = append(parts, k+"=["+byType[k]+"]")
			}
			c.Bad(key, pos, "the sibling map resources disagree on what %s does: %s", m, strings.Join(parts, " vs "))
		}
	}
	c.Count("child-holding resource types", holders)
}

// ------------------------------------------------------------------ RES-PUBLISH

var sinkCalls = map[string]string{
	"io/ioutil.WriteFile":                              "file write",
	"os.WriteFile":                                     "file write",
	"github.com/dgraph-io/badger/v3.DB.Update":         "database update",
	"github.com/dgraph-io/badger/v3.WriteBatch.Flush":  "database batch flush",
	"github.com/dgraph-io/badger/v3.Txn.Set":           "database write",
	"github.com/dgraph-io/badger/v3.Txn.Commit":        "database commit",
	"github.com/dgraph-io/badger/v3.WriteBatch.Set":    "database batch write",
	"github.com/dgraph-io/badger/v3.WriteBatch.Delete": "database batch delete",
}

// publishExceptions: Type.Method:sink -> reason
var publishExceptions = map[string]string{
	"resources.SingleOutputChan.WriteValue:send(resources.SingleOutputChan.channel)": "non-transactional by documented contract (Abort panics)",
	"resources.nestedArchetype:*": "requests to the nested system are protocol messages of a sub-transaction that the nested archetypes themselves roll back on abort_req",
}

func runResPublish(c *core.Ctx) {
	e := EnvOf(c.Prog)
	iface := resourceIface(c, e)
	if iface == nil {
		return
	}
	for _, ri := range resourceImpls(e, iface) {
		tk := an.TypeKey(ri.named)
		for _, m := range []string{"ReadValue", "WriteValue", "Index", "PreCommit", "Abort"} {
			f := ri.methods[m]
			if f == nil || !ri.own[m] {
				continue
			}
			key := tk + "." + m
			es := e.Fx.Of(f)
			var sinks []string
			pos := map[string]token.Pos{}
			for fld, p := range es.ChanSend {
				if !fld.IsField() {
					continue
				}
				if ch, ok := fld.Type().Underlying().(*types.Chan); !ok || !carriesValue(ch.Elem(), tlaValue(e), 0) {
					continue // synchronisation channel (lock, done signal): carries no program value
				}
				s := "send(" + e.Ix.FieldKey(fld) + ")"
				sinks = append(sinks, s)
				pos[s] = p
			}
			for name, p := range es.Ext {
				if what, ok := sinkCalls[name]; ok {
					s := what + " " + name
					sinks = append(sinks, s)
					pos[s] = p
				}
			}
			sort.Strings(sinks)
			if len(sinks) == 0 {
				c.Ok(key, f.Pos(), "no externally observable sink reachable")
				continue
			}
			for _, s := range sinks {
				k2 := key + ":" + s
				if why, ok := publishExceptions[k2]; ok {
					c.Ok(k2, pos[s], "exception: %s", why)
				} else if why, ok := publishExceptions[tk+":*"]; ok {
					c.Ok(k2, pos[s], "exception: %s", why)
				} else if isInternalChannel(e, s) {
					c.Ok(k2, pos[s], "internal completion channel created by the resource itself")
				} else {
					c.Bad(k2, pos[s], "%s reaches an externally observable sink (%s): the effect of an attempt that later aborts would already be visible", key, s)
				}
			}
		}
	}
}

// carriesValue reports whether a value of type t can contain a tla.Value (through
// structs, arrays, slices and pointers).
func carriesValue(t types.Type, val *types.Named, depth int) bool {
	if depth > 6 || t == nil || val == nil {
		return false
	}
	t = types.Unalias(t)
	if n, ok := t.(*types.Named); ok && n.Obj() == val.Obj() {
		return true
	}
	switch u := t.Underlying().(type) {
	case *types.Struct:
		for i := 0; i < u.NumFields(); i++ {
			if carriesValue(u.Field(i).Type(), val, depth+1) {
				return true
			}
		}
	case *types.Array:
		return carriesValue(u.Elem(), val, depth+1)
	case *types.Slice:
		return carriesValue(u.Elem(), val, depth+1)
	case *types.Pointer:
		return carriesValue(u.Elem(), val, depth+1)
	}
	return false
}

// isInternalChannel: sends on api/done channels that the resource allocates for
// signalling completion of its own asynchronous lifecycle operation.
func isInternalChannel(e *Env, sink string) bool {
	return false
}

// ------------------------------------------------------------------ ERR-SENTINEL

func runErrSentinel(c *core.Ctx) {
	e := EnvOf(c.Prog)
	sentinels := map[types.Object]string{}
	for _, name := range []string{"ErrCriticalSectionAborted", "ErrDone"} {
		v := e.Ix.LookupVar(an.PkgDistsys, name)
		if v == nil {
			c.Lost("distsys."+name, "sentinel not found")
			continue
		}
		sentinels[v] = name
	}
	uses := 0
	bad := 0
	for _, pk := range c.Prog.Sorted() {
		for _, f := range pk.Files {
			var stack []ast.Node
			seq := map[string]int{}
			ast.Inspect(f, func(n ast.Node) bool {
				if n == nil {
					stack = stack[:len(stack)-1]
					return true
				}
				stack = append(stack, n)
				id, ok := n.(*ast.Ident)
				if !ok {
					return true
				}
				name, ok := sentinels[pk.Info.Uses[id]]
				if !ok {
					return true
				}
				uses++
				// find the first ancestor that is not a selector/paren
				i := len(stack) - 2
				var child ast.Node = id
				for i >= 0 {
					switch stack[i].(type) {
					case *ast.SelectorExpr, *ast.ParenExpr:
						child = stack[i]
						i--
						continue
					}
					break
				}
				if i < 0 {
					return true
				}
				okUse := false
				switch p := stack[i].(type) {
				case *ast.ReturnStmt, *ast.CaseClause, *ast.SendStmt, *ast.ValueSpec:
					okUse = true
				case *ast.AssignStmt:
					okUse = true
				case *ast.BinaryExpr:
					okUse = p.Op == token.EQL || p.Op == token.NEQ
				case *ast.CallExpr:
					if fn := an.CalleeFunc(pk.Info, p); fn != nil && fn.Pkg() != nil && fn.Pkg().Path() == "errors" && (fn.Name() == "Is") {
						okUse = true
					}
					_ = child
				case *ast.KeyValueExpr, *ast.CompositeLit:
					okUse = true
				}
				if !okUse {
					bad++
					fnName := enclosingFuncName(pk, f, id)
					seq[fnName]++
					key := fmt.Sprintf("%s:%s", fnName, name)
					if seq[fnName] > 1 {
						key = fmt.Sprintf("%s#%d", key, seq[fnName])
					}
					c.Bad(key, id.Pos(), "%s is passed to a call (wrapped?) instead of being returned bare: MPCalContext.Run matches it with a switch on identity, so a wrapped sentinel is treated as a fatal error", name)
				}
				return true
			})
		}
	}
	c.Count("sentinel uses", uses)
	if uses < 100 {
		c.Lost("sentinel-uses", "only %d uses of the sentinels found (expected >= 100)", uses)
	}
	// per-package obligations for coverage
	for _, pk := range c.Prog.Sorted() {
		n := 0
		for _, f := range pk.Files {
			ast.Inspect(f, func(m ast.Node) bool {
				if id, ok := m.(*ast.Ident); ok {
					if _, ok := sentinels[pk.Info.Uses[id]]; ok {
						n++
					}
				}
				return true
			})
		}
		if n > 0 {
			c.Ok("package "+an.ShortPkg(pk.Path), pk.Files[0].Pos(), "%d sentinel uses inspected", n)
		}
	}
	_ = load.Package{}
}

// ------------------------------------------------------------------ ASYNC-JOIN

func init() {
	register(&core.Rule{ID: "ASYNC-JOIN", Props: []string{"C01", "C06"}, Floor: 10,
		Doc: "a resource's PreCommit/Commit/Abort that does its work in a goroutine returns (non-nil) the channel that goroutine signals on every normal exit, and nothing observable happens in the goroutine after that signal - so the next section cannot start while the previous one is still taking effect",
		Run: runAsyncJoin})
}

func sameChanExpr(info *types.Info, a, b ast.Expr) bool {
	if oa, ob := an.ObjOf(info, a), an.ObjOf(info, b); oa != nil && oa == ob {
		return true
	}
	if fa, fb := an.SelectedField(info, a), an.SelectedField(info, b); fa != nil && fa == fb {
		return true
	}
	return false
}

func runAsyncJoin(c *core.Ctx) {
	e := EnvOf(c.Prog)
	iface := resourceIface(c, e)
	if iface == nil {
		return
	}
	val := tlaValue(e)
	for _, ri := range resourceImpls(e, iface) {
		tk := an.TypeKey(ri.named)
		for _, m := range []string{"PreCommit", "Commit", "Abort"} {
			f := ri.methods[m]
			if f == nil || !ri.own[m] {
				continue
			}
			info := f.Pkg.Info
			g := e.Graph(f)
			gos := g.FindAtoms(func(a ast.Node) bool { _, ok := a.(*ast.GoStmt); return ok })
			// a locally made channel that is returned must be signalled by this method (directly or in a goroutine it starts):
			// otherwise the driver waits for it forever
			madeChans := map[types.Object]ast.Node{}
			g.AllAtoms(func(a ast.Node) {
				if as, ok := a.(*ast.AssignStmt); ok && len(as.Lhs) == 1 && len(as.Rhs) == 1 {
					if call, ok := an.Unparen(as.Rhs[0]).(*ast.CallExpr); ok && an.IsBuiltin(info, call, "make") {
						if _, isChan := info.TypeOf(as.Lhs[0]).Underlying().(*types.Chan); isChan {
							if o := an.ObjOf(info, as.Lhs[0]); o != nil {
								madeChans[o] = as
							}
						}
					}
				}
			})
			for _, r := range g.FindAtoms(func(a ast.Node) bool { _, ok := a.(*ast.ReturnStmt); return ok }) {
				rs := r.(*ast.ReturnStmt)
				if len(rs.Results) != 1 {
					continue
				}
				var o types.Object = an.ObjOf(info, rs.Results[0])
				if o == nil || madeChans[o] == nil {
					// a channel kept in a field of the resource
					fv := an.SelectedField(info, rs.Results[0])
					if fv == nil {
						continue
					}
					if _, isChan := fv.Type().Underlying().(*types.Chan); !isChan {
						continue
					}
					o = fv
				}
				same := func(x ast.Expr) bool {
					if an.ObjOf(info, x) == o {
						return true
					}
					if fv := an.SelectedField(info, x); fv != nil && types.Object(fv) == o {
						return true
					}
					return false
				}
				signalled := false
				ast.Inspect(f.Body(), func(k ast.Node) bool {
					switch x := k.(type) {
					case *ast.SendStmt:
						if same(x.Chan) {
							signalled = true
						}
					case *ast.CallExpr:
						if an.IsBuiltin(info, x, "close") && len(x.Args) == 1 && same(x.Args[0]) {
							signalled = true
						}
					}
					return true
				})
				c.Check(signalled, fmt.Sprintf("%s.%s:returned-channel-signalled(%s)", tk, m, o.Name()), rs.Pos(), "the channel made and returned here is sent to (or closed) by this method or a goroutine it starts",
					fmt.Sprintf("%s.%s returns a channel it created but nothing in the method ever sends on or closes it: the driver waits for this resource forever", tk, m))
			}
			// also goroutines started inside nested blocks are atoms of this graph; nested literals are not descended
			for i, gs := range gos {
				key := fmt.Sprintf("%s.%s:go#%d", tk, m, i+1)
				lit, ok := an.Unparen(gs.(*ast.GoStmt).Call.Fun).(*ast.FuncLit)
				if !ok {
					c.Undecided(key, gs.Pos(), "goroutine body is not a function literal")
					continue
				}
				// returns reachable after the go statement
				var retExprs []ast.Expr
				nilRet := false
				p := g.Search(an.Query{From: gs, Target: func(a ast.Node) bool {
					if r, ok := a.(*ast.ReturnStmt); ok && len(r.Results) == 1 {
						if isNilIdent(info, r.Results[0]) {
							nilRet = true
						} else {
							retExprs = append(retExprs, r.Results[0])
						}
					}
					return false
				}})
				_ = p
				if nilRet || len(retExprs) == 0 {
					c.Bad(key, gs.Pos(), "%s.%s starts a goroutine but can return nil afterwards: the driver treats the operation as complete and starts the next section while this one is still taking effect (later effects can overtake earlier ones)", tk, m)
					continue
				}
				lg := e.GraphOfLit(f.Pkg, lit)
				isSend := func(a ast.Node) bool {
					s, ok := a.(*ast.SendStmt)
					if !ok {
						return false
					}
					for _, r := range retExprs {
						if sameChanExpr(info, s.Chan, r) {
							return true
						}
					}
					return false
				}
				// closures that always signal: local `name := func() {...}` literals and literals passed as call arguments
				alwaysSignals := func(l *ast.FuncLit) bool {
					ok, _ := e.GraphOfLit(f.Pkg, l).MustPass(nil, isSend, nil)
					return ok
				}
				signalling := map[types.Object]bool{}
				ast.Inspect(lit.Body, func(n ast.Node) bool {
					if as, ok := n.(*ast.AssignStmt); ok && len(as.Lhs) == 1 && len(as.Rhs) == 1 {
						if l, ok := an.Unparen(as.Rhs[0]).(*ast.FuncLit); ok && alwaysSignals(l) {
							if o := an.ObjOf(info, as.Lhs[0]); o != nil {
								signalling[o] = true
							}
						}
					}
					return true
				})
				isSignal := func(a ast.Node) bool {
					if isSend(a) {
						return true
					}
					call, ok := a.(*ast.CallExpr)
					if !ok {
						return false
					}
					if o := an.ObjOf(info, call.Fun); o != nil && signalling[o] {
						return true
					}
					for _, arg := range call.Args {
						if l, ok := an.Unparen(arg).(*ast.FuncLit); ok && alwaysSignals(l) {
							return true
						}
					}
					return false
				}
				signalled, _ := lg.MustPass(nil, isSignal, nil)
				if !signalled {
					c.Bad(key, gs.Pos(), "the goroutine started by %s.%s has a normal exit that does not signal the returned channel: the driver would wait forever (or, with a buffered channel, never learn of completion)", tk, m)
					continue
				}
				// nothing observable after the signal
				late := false
				for _, sig := range lg.FindAtoms(isSignal) {
					q := lg.Search(an.Query{From: sig, Target: func(a ast.Node) bool {
						switch x := a.(type) {
						case *ast.SendStmt:
							if isSignal(a) {
								return false
							}
							if ch, ok := info.TypeOf(x.Chan).Underlying().(*types.Chan); ok && carriesValue(ch.Elem(), val, 0) {
								return true
							}
						case *ast.CallExpr:
							if name, _, ok := lifecycleCall(info, x, iface); ok && name == m {
								return true
							}
							if fn := an.CalleeFunc(info, x); fn != nil && fn.Pkg() != nil {
								nm := fn.Pkg().Path() + "." + fn.Name()
								if rn := an.RecvNamed(fn); rn != nil {
									nm = fn.Pkg().Path() + "." + rn.Obj().Name() + "." + fn.Name()
								}
								if _, ok := sinkCalls[nm]; ok {
									return true
								}
							}
						}
						return false
					}})
					if q.Found {
						late = true
					}
				}
				if late {
					c.Bad(key, gs.Pos(), "the goroutine of %s.%s still publishes / forwards after signalling completion", tk, m)
				} else {
					c.Ok(key, gs.Pos(), "joined: returns the channel the goroutine signals on every exit, after all its effects")
				}
			}
		}
	}
}

// ------------------------------------------------------------------ RES-FIELDOWNER

func init() {
	register(&core.Rule{ID: "RES-FIELDOWNER", Props: []string{"C01", "C04"}, Floor: 20,
		Doc: "the fields of a resource implementation are written only by that type's own methods (or its constructor / option functions): state changed behind the resource's back is invisible to dirty tracking, snapshots, tracing and rollback",
		Run: runResFieldOwner})
}

// fieldOwnerExceptions: writer function prefix -> owner type -> reason
var fieldOwnerExceptions = map[string]map[string]string{
	"distsys.localArchetypeSubResource.": {"distsys.LocalArchetypeResource": "the sub-resource is a view onto its parent cell and performs the parent's reads/writes"},
}

func runResFieldOwner(c *core.Ctx) {
	e := EnvOf(c.Prog)
	iface := resourceIface(c, e)
	if iface == nil {
		return
	}
	implSet := map[*types.TypeName]*types.Named{}
	for _, ri := range resourceImpls(e, iface) {
		implSet[ri.named.Obj()] = ri.named
	}
	// manager types whose state is part of a resource
	for _, extra := range []string{"LocalSharedManager"} {
		if t := e.Ix.LookupType(an.PkgResources, extra); t != nil {
			implSet[t.Obj()] = t
		}
	}
	perType := map[string]int{}
	bad := map[string]bool{}
	for _, fn := range e.Ix.Funcs() {
		info := fn.Pkg.Info
		writer := fn.Name()
		recvT := an.RecvNamed(fn.Obj)
		check := func(lhs ast.Expr) {
			fs := an.FieldsInLvalue(info, lhs)
			if len(fs) == 0 {
				return
			}
			owner := e.Ix.FieldOwner(fs[0])
			if owner == nil || implSet[owner.Obj()] == nil {
				return
			}
			ok := an.TypeKey(owner)
			perType[ok]++
			switch {
			case recvT != nil && recvT.Obj() == owner.Obj():
				return
			case fn.Obj != nil && recvT == nil && fn.Obj.Pkg() == owner.Obj().Pkg() &&
				(strings.HasPrefix(fn.Obj.Name(), "New") || strings.HasPrefix(fn.Obj.Name(), "new") || strings.HasPrefix(fn.Obj.Name(), "With") || strings.HasPrefix(fn.Obj.Name(), "Make") || strings.HasPrefix(fn.Obj.Name(), "make")):
				return // constructor / option: runs before the resource is bound to a context
			}
			for pre, owners := range fieldOwnerExceptions {
				if strings.HasPrefix(writer, pre) && owners[ok] != "" {
					return
				}
			}
			// the 2PC receiver is the RPC face of its resource
			if recvT != nil && recvT.Obj().Name() == "TwoPCReceiver" && ok == "resources.TwoPCArchetypeResource" {
				return
			}
			key := fmt.Sprintf("%s:writes(%s.%s)", writer, ok, fs[0].Name())
			if !bad[key] {
				bad[key] = true
				c.Bad(key, lhs.Pos(), "%s assigns field %s of resource type %s directly, outside that type's methods: the change bypasses the resource's WriteValue (no dirty mark, no rollback snapshot, no trace record), so e.g. an abort restores a stale value", writer, fs[0].Name(), ok)
			}
		}
		ast.Inspect(fn.Body(), func(n ast.Node) bool {
			switch x := n.(type) {
			case *ast.AssignStmt:
				for _, l := range x.Lhs {
					check(l)
				}
			case *ast.IncDecStmt:
				check(x.X)
			}
			return true
		})
	}
	var keys []string
	for k := range perType {
		keys = append(keys, k)
	}
	sort.Strings(keys)
	for _, k := range keys {
		anyBad := false
		for b := range bad {
			if strings.Contains(b, "writes("+k+".") {
				anyBad = true
			}
		}
		if !anyBad {
			c.Ok(k, token.NoPos, "%d field writes, all from the type's own methods / constructors", perType[k])
		}
	}
}
