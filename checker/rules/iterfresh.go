package rules

import (
	"fmt"
	"go/ast"
	"go/types"

	"pgoverif/checker/an"
	"pgoverif/checker/core"
)

// ITER-FRESH: the iterator a `for !it.Done()` loop consumes is created for that loop: every value the
// iterator variable can hold at the loop comes from a call of an Iterator() method (or is a parameter /
// captured variable of the enclosing function, where the caller is responsible). An iterator fetched
// from a slice, map or field has been created elsewhere and may already be exhausted: a nested
// enumeration (quantifier over several sets, cross products) then silently visits only the first row.

func init() {
	register(&core.Rule{ID: "ITER-FRESH", Props: []string{"C03", "C05", "C12"}, Floor: 40,
		Doc: "every iterator loop consumes an iterator obtained from an Iterator() call in the same function (never one parked in a slice/map/field and reused across traversals)",
		Run: runIterFresh})
}

func runIterFresh(c *core.Ctx) {
	e := EnvOf(c.Prog)
	for _, fn := range e.Ix.Funcs() {
		info := fn.Pkg.Info
		seq := map[string]int{}
		an.Inspect(fn.Body(), func(n ast.Node) bool { return true })
		ast.Inspect(fn.Body(), func(n ast.Node) bool {
			fs, ok := n.(*ast.ForStmt)
			if !ok || fs.Cond == nil {
				return true
			}
			for obj := range iteratorDoneCalls(info, fs.Cond) {
				name := obj.Name()
				seq[name]++
				key := fmt.Sprintf("%s:iterator(%s)#%d", fn.Name(), name, seq[name])
				v, isVar := obj.(*types.Var)
				if !isVar {
					continue
				}
				// sources of the variable inside this function
				bad := ""
				sources := 0
				ast.Inspect(fn.Body(), func(m ast.Node) bool {
					switch x := m.(type) {
					case *ast.AssignStmt:
						for i, l := range x.Lhs {
							if an.ObjOf(info, l) != obj {
								continue
							}
							sources++
							var rhs ast.Expr
							if len(x.Rhs) == len(x.Lhs) {
								rhs = x.Rhs[i]
							} else if len(x.Rhs) == 1 {
								rhs = x.Rhs[0]
							}
							if !isIteratorCall(info, rhs) {
								bad = "it is assigned from `" + an.ExprString(rhs) + "` at " + c.Prog.Rel(x.Pos())
							}
						}
					case *ast.ValueSpec:
						for i, nm := range x.Names {
							if info.Defs[nm] != obj {
								continue
							}
							if i < len(x.Values) {
								sources++
								if !isIteratorCall(info, x.Values[i]) {
									bad = "it is initialised from `" + an.ExprString(x.Values[i]) + "`"
								}
							}
						}
					case *ast.RangeStmt:
						if an.ObjOf(info, x.Key) == obj || (x.Value != nil && an.ObjOf(info, x.Value) == obj) {
							sources++
							bad = "it is a range variable over a collection of iterators"
						}
					}
					return true
				})
				_ = v
				// an iterator variable consumed by an earlier loop of the same function is re-created before this loop
				if bad == "" {
					var prev []*ast.ForStmt
					ast.Inspect(fn.Body(), func(m ast.Node) bool {
						if f2, ok := m.(*ast.ForStmt); ok && f2 != fs && f2.Cond != nil && f2.Pos() < fs.Pos() && !(f2.Pos() <= fs.Pos() && fs.End() <= f2.End()) {
							if _, uses := iteratorDoneCalls(info, f2.Cond)[obj]; uses {
								prev = append(prev, f2)
							}
						}
						return true
					})
					for _, p := range prev {
						reassigned := false
						ast.Inspect(fn.Body(), func(m ast.Node) bool {
							if as, ok := m.(*ast.AssignStmt); ok && as.Pos() > p.End() && as.End() <= fs.Pos() {
								for _, l := range as.Lhs {
									if an.ObjOf(info, l) == obj {
										reassigned = true
									}
								}
							}
							return true
						})
						if !reassigned {
							bad = "an earlier loop at " + c.Prog.Rel(p.Pos()) + " has already exhausted it and it is not re-created in between"
						}
					}
				}
				switch {
				case bad != "":
					c.Bad(key, fs.Pos(), "the loop consumes iterator %s that was not created for it: %s; an iterator created elsewhere may already be exhausted, so a repeated traversal visits nothing", name, bad)
				case sources == 0:
					c.Ok(key, fs.Pos(), "the iterator is a parameter or captured variable (created by the caller)")
				default:
					c.Ok(key, fs.Pos(), "every value of the iterator variable comes from an Iterator() call in this function")
				}
			}
			return true
		})
	}
}

func isIteratorCall(info *types.Info, ex ast.Expr) bool {
	if ex == nil {
		return false
	}
	call, ok := an.Unparen(ex).(*ast.CallExpr)
	if !ok {
		return false
	}
	sel, ok := an.Unparen(call.Fun).(*ast.SelectorExpr)
	return ok && sel.Sel.Name == "Iterator"
}
