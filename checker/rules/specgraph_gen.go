package rules

func init() {
	// the label graph of every tabled archetype: which label a section can hand over to (generated with `specdump -succ`
	// from the pinned specifications and read through; a goto re-targeted consistently in the specification and the Go changes
	// what runs between two steps - e.g. a backup that returns to rcvMsg instead of replicaLoop skips the re-initialisation
	// of its replication cursor)
	graph := func(rule, pair, unit string, edges map[string][]string) specRow {
		return specRow{rule: rule, pair: pair, unit: unit, graph: edges, why: "the labels of an archetype and the order they hand over to each other are the protocol's control skeleton"}
	}
	specTable(
		graph("PB-DECISION", "pbkvs", "AReplica", map[string][]string{"replicaLoop": {"failLabel", "syncPrimary"}, "syncPrimary": {"rcvMsg", "sndSyncReqLoop"}, "sndSyncReqLoop": {"failLabel", "rcvSyncRespLoop", "sndSyncReqLoop"}, "rcvSyncRespLoop": {"rcvMsg", "rcvSyncRespLoop", "sndSyncReqLoop"}, "rcvMsg": {"handleBackup", "handlePrimary", "syncPrimary"}, "handleBackup": {"replicaLoop"}, "handlePrimary": {"sndReplicaReqLoop", "sndResp"}, "sndReplicaReqLoop": {"failLabel", "rcvReplicaRespLoop", "sndReplicaReqLoop"}, "rcvReplicaRespLoop": {"failLabel", "rcvReplicaRespLoop", "sndResp"}, "sndResp": {"replicaLoop"}, "failLabel": {"Done"}}),
		graph("PB-DECISION", "pbkvs", "AClient", map[string][]string{"clientLoop": {"Done", "sndReq"}, "sndReq": {"Done", "rcvResp", "sndReq"}, "rcvResp": {"clientLoop", "rcvResp", "sndReq"}}),
		graph("LOCK-DECISION", "locksvc", "AServer", map[string][]string{"serverLoop": {"Done", "serverReceive"}, "serverReceive": {"serverRespond"}, "serverRespond": {"serverLoop"}}),
		graph("LOCK-DECISION", "locksvc", "AClient", map[string][]string{"acquireLock": {"criticalSection"}, "criticalSection": {"unlock"}, "unlock": {"Done"}}),
		graph("RAFT-DECISION", "raftkvs", "AServer", map[string][]string{"serverLoop": {"Done", "handleMsg"}, "handleMsg": {"serverLoop"}}),
		graph("RAFT-DECISION", "raftkvs", "AServerRequestVote", map[string][]string{"serverRequestVoteLoop": {"Done", "requestVoteLoop"}, "requestVoteLoop": {"requestVoteLoop", "serverRequestVoteLoop"}}),
		graph("RAFT-DECISION", "raftkvs", "AServerAppendEntries", map[string][]string{"serverAppendEntriesLoop": {"Done", "appendEntriesLoop"}, "appendEntriesLoop": {"appendEntriesLoop", "serverAppendEntriesLoop"}}),
		graph("RAFT-DECISION", "raftkvs", "AServerAdvanceCommitIndex", map[string][]string{"serverAdvanceCommitIndexLoop": {"Done", "applyLoop"}, "applyLoop": {"applyLoop", "serverAdvanceCommitIndexLoop"}}),
		graph("RAFT-DECISION", "raftkvs", "AServerBecomeLeader", map[string][]string{"serverBecomeLeaderLoop": {"Done", "serverBecomeLeaderLoop"}}),
		graph("RAFT-DECISION", "raftkvs", "AClient", map[string][]string{"clientLoop": {"Done", "sndReq"}, "sndReq": {"rcvResp"}, "rcvResp": {"clientLoop", "rcvResp", "sndReq"}}),
		graph("SYS-DECISION", "proxy", "AProxy", map[string][]string{"proxyLoop": {"Done", "serversLoop"}, "serversLoop": {"proxyRcvMsg", "sendMsgToClient", "serversLoop"}, "proxyRcvMsg": {"proxyRcvMsg", "sendMsgToClient", "serversLoop"}, "sendMsgToClient": {"proxyLoop"}}),
		graph("SYS-DECISION", "proxy", "AServer", map[string][]string{"serverLoop": {"failLabel", "serverRcvMsg"}, "serverRcvMsg": {"failLabel", "serverSendMsg"}, "serverSendMsg": {"failLabel", "serverLoop"}, "failLabel": {"Done"}}),
		graph("SYS-DECISION", "proxy", "AClient", map[string][]string{"clientLoop": {"Done", "clientRcvResp"}, "clientRcvResp": {"clientLoop"}}),
		graph("SYS-DECISION", "dqueue", "AConsumer", map[string][]string{"c": {"Done", "c1"}, "c1": {"c2"}, "c2": {"c"}}),
		graph("SYS-DECISION", "dqueue", "AProducer", map[string][]string{"p": {"Done", "p1"}, "p1": {"p2"}, "p2": {"p"}}),
		graph("SYS-DECISION", "loadbalancer", "ALoadBalancer", map[string][]string{"main": {"Done", "rcvMsg"}, "rcvMsg": {"sendServer"}, "sendServer": {"main"}}),
		graph("SYS-DECISION", "loadbalancer", "AServer", map[string][]string{"serverLoop": {"Done", "rcvReq"}, "rcvReq": {"sendPage"}, "sendPage": {"serverLoop"}}),
		graph("SYS-DECISION", "loadbalancer", "AClient", map[string][]string{"clientLoop": {"Done", "clientRequest"}, "clientRequest": {"clientReceive"}, "clientReceive": {"clientLoop"}}),
		graph("SYS-DECISION", "nestedcrdtimpl", "ATestRig", map[string][]string{"loop": {"endLoop", "loop"}, "endLoop": {"endLoop"}}),
		graph("SYS-DECISION", "nestedcrdtimpl", "ATestBench", map[string][]string{"benchLoop": {"Done", "inc"}, "inc": {"waitInc"}, "waitInc": {"benchLoop"}}),
		graph("SYS-DECISION", "nestedcrdtimpl", "ACRDTResource", map[string][]string{"receiveReq": {"receiveReq"}}),
		graph("SYS-DECISION", "replicatedkv", "AReplica", map[string][]string{"replicaLoop": {"Done", "receiveClientRequest"}, "receiveClientRequest": {"clientDisconnected"}, "clientDisconnected": {"replicaGetRequest"}, "replicaGetRequest": {"replicaPutRequest"}, "replicaPutRequest": {"replicaNullRequest"}, "replicaNullRequest": {"findStableRequestsLoop"}, "findStableRequestsLoop": {"findMinClock", "respondPendingRequestsLoop"}, "findMinClock": {"findMinClient", "findMinClock"}, "findMinClient": {"addStableMessage", "findMinClient"}, "addStableMessage": {"findStableRequestsLoop"}, "respondPendingRequestsLoop": {"replicaLoop", "respondStableGet"}, "respondStableGet": {"respondStablePut"}, "respondStablePut": {"respondPendingRequestsLoop"}}),
		graph("SYS-DECISION", "replicatedkv", "Get", map[string][]string{"getLoop": {"Done", "getRequest"}, "getRequest": {"getCheckSpin", "getReply"}, "getReply": {"getCheckSpin"}, "getCheckSpin": {"getLoop"}}),
		graph("SYS-DECISION", "replicatedkv", "Put", map[string][]string{"putLoop": {"Done", "putRequest"}, "putRequest": {"putBroadcast", "putCheckSpin"}, "putBroadcast": {"putBroadcast", "putResponse"}, "putResponse": {"putComplete", "putLoop", "putResponse"}, "putComplete": {"putCheckSpin"}, "putCheckSpin": {"putLoop"}}),
		graph("SYS-DECISION", "replicatedkv", "Disconnect", map[string][]string{"sendDisconnectRequest": {"disconnectBroadcast"}, "disconnectBroadcast": {"Done", "disconnectBroadcast"}}),
		graph("SYS-DECISION", "replicatedkv", "ClockUpdate", map[string][]string{"clockUpdateLoop": {"Done", "nullBroadcast", "nullCheckSpin"}, "nullBroadcast": {"nullBroadcast", "nullCheckSpin"}, "nullCheckSpin": {"clockUpdateLoop"}}),
		graph("SYS-DECISION", "shcounter", "ANode", map[string][]string{"update": {"wait"}, "wait": {"Done"}}),
		graph("SYS-DECISION", "gcounter", "ANode", map[string][]string{"update": {"wait"}, "wait": {"Done"}}),
		graph("SYS-DECISION", "gcounter", "ANodeBench", map[string][]string{"nodeBenchLoop": {"Done", "inc"}, "inc": {"waitInc"}, "waitInc": {"nodeBenchLoop"}}),
		graph("SYS-DECISION", "shopcart", "ANode", map[string][]string{"nodeLoop": {"Done", "rcvResp"}, "rcvResp": {"nodeLoop"}}),
		graph("SYS-DECISION", "shopcart", "ANodeBench", map[string][]string{"nodeBenchLoop": {"Done", "add"}, "add": {"waitAdd"}, "waitAdd": {"nodeBenchLoop"}}),
	)
}
