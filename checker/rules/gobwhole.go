package rules

import (
	"fmt"
	"go/ast"
	"go/types"
	"golang.org/x/tools/go/cfg"

	"pgoverif/checker/an"
	"pgoverif/checker/core"
)

func init() {
	register(&core.Rule{ID: "GOB-WHOLE", Props: []string{"C05", "C12", "C13"}, Floor: 20,
		Doc: "a hand-written GobEncode ships the whole value: every collection it walks (and every length it announces) is a component of the receiver itself - a field, the receiver, or an accessor of the receiver - never a derived copy that may have been filtered; every element the iterator yields is encoded (or collected for encoding) on every path of the loop body; and every collection-typed field of the receiver is walked",
		Run: runGobWhole})
}

func runGobWhole(c *core.Ctx) {
	e := EnvOf(c.Prog)
	n := 0
	for _, pk := range c.Prog.Sorted() {
		sc := pk.Types.Scope()
		for _, name := range sc.Names() {
			tn, ok := sc.Lookup(name).(*types.TypeName)
			if !ok || tn.IsAlias() {
				continue
			}
			nt, ok := tn.Type().(*types.Named)
			if !ok {
				continue
			}
			fn := e.Ix.MethodDecl(nt, "GobEncode")
			if fn == nil || fn.Body() == nil || fn.Decl.Recv == nil || len(fn.Decl.Recv.List) != 1 || len(fn.Decl.Recv.List[0].Names) != 1 {
				continue
			}
			info := fn.Pkg.Info
			recv := info.Defs[fn.Decl.Recv.List[0].Names[0]]
			g := e.Graph(fn)
			key := an.TypeKey(nt)
			// is x a component of the receiver?
			viaAccessor := false
			var component func(x ast.Expr, depth int) (bool, *types.Var)
			component = func(x ast.Expr, depth int) (bool, *types.Var) {
				x = an.Unparen(x)
				switch y := x.(type) {
				case *ast.Ident:
					if info.ObjectOf(y) == recv {
						return true, nil
					}
					if depth < 3 {
						if d := an.SingleDef(info, fn.Body(), info.ObjectOf(y)); d != nil {
							return component(d, depth+1)
						}
					}
				case *ast.StarExpr:
					return component(y.X, depth)
				case *ast.SelectorExpr:
					if f := an.SelectedField(info, y); f != nil {
						if ok, _ := component(y.X, depth); ok {
							return true, f
						}
					}
				case *ast.CallExpr:
					// accessor of the receiver without arguments: v.AsSet()
					if sel, ok := an.Unparen(y.Fun).(*ast.SelectorExpr); ok && len(y.Args) == 0 {
						if ok, f := component(sel.X, depth); ok {
							if f == nil {
								viaAccessor = true // an accessor of the receiver stands for its (single) content
							}
							return true, f
						}
					}
				}
				return false, nil
			}
			walked := map[*types.Var]bool{}
			loops := 0
			ast.Inspect(fn.Body(), func(m ast.Node) bool {
				call, ok := m.(*ast.CallExpr)
				if !ok {
					return true
				}
				sel, ok := an.Unparen(call.Fun).(*ast.SelectorExpr)
				if !ok || len(call.Args) != 0 {
					return true
				}
				switch sel.Sel.Name {
				case "Iterator":
					loops++
					n++
					isC, f := component(sel.X, 0)
					if f != nil {
						walked[f] = true
					}
					c.Check(isC, fmt.Sprintf("%s.GobEncode:walk#%d-is-a-component-of-the-receiver", key, loops), call.Pos(), "the encoded collection is the receiver's own",
						"GobEncode walks "+types.ExprString(sel.X)+", which is not a field / accessor of the receiver but a derived collection: entries filtered out of it never reach the peer, so the decoded value differs from the one sent (for a CRDT: an update is lost in transport and replicas diverge)")
				case "Len":
					// a length that is encoded must be the length of a component too
					if p, isCall := g.Parent(call).(*ast.CallExpr); isCall {
						if f := an.CalleeFunc(info, p); f != nil && f.Name() == "Encode" {
							n++
							isC, _ := component(sel.X, 0)
							c.Check(isC, fmt.Sprintf("%s.GobEncode:announced-length-of-%s", key, types.ExprString(sel.X)), call.Pos(), "the announced length is the receiver's own",
								"GobEncode announces the length of "+types.ExprString(sel.X)+", which is not a component of the receiver")
						}
					}
				}
				return true
			})
			// every element yielded is encoded / collected on every path of the loop body
			k := 0
			ast.Inspect(fn.Body(), func(m ast.Node) bool {
				fs, ok := m.(*ast.ForStmt)
				if !ok {
					return true
				}
				hasNext := false
				ast.Inspect(fs.Body, func(x ast.Node) bool {
					if call, ok := x.(*ast.CallExpr); ok {
						if sel, ok := an.Unparen(call.Fun).(*ast.SelectorExpr); ok && sel.Sel.Name == "Next" && len(call.Args) == 0 {
							hasNext = true
						}
					}
					return true
				})
				if !hasNext {
					return true
				}
				bb := g.BlockOfStmt(fs, cfg.KindForBody)
				ships := func(a ast.Node) bool {
					switch x := a.(type) {
					case *ast.CallExpr:
						if f := an.CalleeFunc(info, x); f != nil && f.Name() == "Encode" {
							return true
						}
					case *ast.AssignStmt:
						if len(x.Rhs) == 1 {
							if call, ok := an.Unparen(x.Rhs[0]).(*ast.CallExpr); ok && an.IsBuiltin(info, call, "append") {
								return true
							}
						}
					}
					return false
				}
				// only loops that ship at all are encode loops (a counting pre-pass is not)
				shipsAtAll := false
				ast.Inspect(fs.Body, func(x ast.Node) bool {
					if ships(x) {
						shipsAtAll = true
					}
					return true
				})
				if !shipsAtAll {
					return true
				}
				k++
				n++
				okAll := bb != nil && g.PassesWithinUnlessExit(bb, fs.Body.Pos(), fs.Body.End(), ships)
				c.Check(okAll, fmt.Sprintf("%s.GobEncode:loop#%d-ships-every-element", key, k), fs.Pos(), "every iteration encodes (or collects) its element",
					"an iteration of the encode loop can finish without encoding its element: that entry is missing from the wire form")
				return true
			})
			// every collection-typed field of the receiver is walked
			if st, ok := nt.Underlying().(*types.Struct); ok && loops > 0 && !viaAccessor {
				for i := 0; i < st.NumFields(); i++ {
					f := st.Field(i)
					if f.Embedded() {
						continue
					}
					hasIter := false
					ms := types.NewMethodSet(types.NewPointer(f.Type()))
					for j := 0; j < ms.Len(); j++ {
						if ms.At(j).Obj().Name() == "Iterator" {
							hasIter = true
						}
					}
					if ptr, isPtr := f.Type().(*types.Pointer); isPtr {
						ms2 := types.NewMethodSet(ptr)
						for j := 0; j < ms2.Len(); j++ {
							if ms2.At(j).Obj().Name() == "Iterator" {
								hasIter = true
							}
						}
					}
					if !hasIter {
						continue
					}
					n++
					c.Check(walked[f.Origin()] || walked[f], fmt.Sprintf("%s.GobEncode:encodes-field-%s", key, f.Name()), fn.Pos(), "the component is walked by GobEncode",
						"GobEncode never walks the field "+f.Name()+": that component of the value is not transmitted")
				}
			}
		}
	}
	if n == 0 {
		c.Lost("GobEncode methods", "no hand-written GobEncode with an iterator loop found")
	}
}
