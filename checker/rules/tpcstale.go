package rules

import (
	"go/ast"
	"go/types"

	"pgoverif/checker/an"
	"pgoverif/checker/core"
)

func init() {
	register(&core.Rule{ID: "TPC-STALE", Props: []string{"C11"}, Floor: 1,
		Doc: "the 2PC receiver hands every message to the acceptor except one that is strictly older than the last message it processed from the same sender: TwoPCReceiver.Receive calls receiveInternal exactly when the sender's recorded time is not greater than the message's. A second copy of the current message (equal time) is processed again - the acceptor's answer to it is its real answer - and is not waved through with an invented accept",
		Run: func(c *core.Ctx) {
			e := EnvOf(c.Prog)
			rows := []dtRow{{fn: "TwoPCReceiver.Receive", key: "processes-unless-strictly-older", why: "only a message strictly older than the last one processed from its sender is skipped",
				find: func(info *types.Info, n ast.Node) bool {
					call, ok := n.(*ast.CallExpr)
					return ok && an.IsMethodNamed(an.CalleeFunc(info, call), an.PkgResources, "TwoPCArchetypeResource", "receiveInternal")
				},
				ints: map[string]string{"twopc.senderTimes[arg.Sender]": "", "arg.SenderTime": ""},
				ref:  func(a dtAtoms) bool { return !(a.I("twopc.senderTimes[arg.Sender]") > a.I("arg.SenderTime")) }}}
			runDecisionRows(c, e, an.PkgResources, "TwoPCReceiver", rows)
		}})
}
