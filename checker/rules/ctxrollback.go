package rules

import (
	"go/ast"
	"go/token"
	"go/types"
	"sort"

	"pgoverif/checker/an"
	"pgoverif/checker/core"
)

func init() {
	register(&core.Rule{ID: "CTX-ROLLBACK", Props: []string{"C01", "C04", "C02"}, Floor: 3,
		Doc: "the driver's own state is part of what a rolled-back critical section must leave unchanged: every field of MPCalContext that the section-time API (the methods of ArchetypeInterface and what they call in the driver) writes is either reset by both abort() and commit(), or scoped to the call that wrote it (cleared by a deferred assignment of the same function), or an insert-only registry whose entries are the same on every attempt. A field written by Call/Return/Read/Write that survives abort() lets a rolled-back section steer the next attempt",
		Run: runCtxRollback})
}

// ctxRegistries: fields of MPCalContext written at section time that are not rolled back, by design. One line of reason each.
var ctxRegistries = map[string]string{
	"resources":             "handle -> resource registry: a section only adds the slot of a procedure variable that does not exist yet (RES-NOREBIND decides that a live cell is never re-bound), and the slot's value is rolled back by the slot itself",
	"apparentResourceNames": "handle -> name registry: RequireArchetypeResourceRef / ensureArchetypeResourceLocal store the same pair for the same handle on every attempt; only index assignments, never a delete",
}

func runCtxRollback(c *core.Ctx) {
	e := EnvOf(c.Prog)
	ctxT := mustType(c, e, an.PkgDistsys, "MPCalContext")
	ifT := mustType(c, e, an.PkgDistsys, "ArchetypeInterface")
	abort := mustMethod(c, e, an.PkgDistsys, "MPCalContext", "abort")
	commit := mustMethod(c, e, an.PkgDistsys, "MPCalContext", "commit")
	if ctxT == nil || ifT == nil || abort == nil || commit == nil {
		return
	}
	st, ok := ctxT.Underlying().(*types.Struct)
	if !ok {
		c.Lost("MPCalContext", "not a struct")
		return
	}
	isCtxField := map[*types.Var]bool{}
	for i := 0; i < st.NumFields(); i++ {
		isCtxField[st.Field(i)] = true
	}
	type write struct {
		fn      *an.Func
		pos     token.Pos
		nilRHS  bool // assignment of nil
		index   bool // m[k] = v
		deleted bool
	}
	// the field a left-hand side names (through index expressions), if it is a field of MPCalContext
	fieldOf := func(info *types.Info, lhs ast.Expr) (*types.Var, bool) {
		indexed := false
		x := an.Unparen(lhs)
		for {
			if ix, ok := x.(*ast.IndexExpr); ok {
				x = an.Unparen(ix.X)
				indexed = true
				continue
			}
			break
		}
		sel, ok := x.(*ast.SelectorExpr)
		if !ok {
			return nil, false
		}
		if s, ok := info.Selections[sel]; ok {
			if v, ok := s.Obj().(*types.Var); ok && isCtxField[v] {
				return v, indexed
			}
		}
		return nil, false
	}
	writesOf := func(fn *an.Func) map[*types.Var][]write {
		out := map[*types.Var][]write{}
		info := fn.Pkg.Info
		ast.Inspect(fn.Body(), func(n ast.Node) bool {
			switch x := n.(type) {
			case *ast.AssignStmt:
				for i, l := range x.Lhs {
					if v, indexed := fieldOf(info, l); v != nil {
						w := write{fn: fn, pos: l.Pos(), index: indexed}
						if len(x.Rhs) == len(x.Lhs) {
							if id, ok := an.Unparen(x.Rhs[i]).(*ast.Ident); ok && id.Name == "nil" {
								w.nilRHS = true
							}
						}
						out[v] = append(out[v], w)
					}
				}
			case *ast.IncDecStmt:
				if v, indexed := fieldOf(info, x.X); v != nil {
					out[v] = append(out[v], write{fn: fn, pos: x.Pos(), index: indexed})
				}
			case *ast.CallExpr:
				if (an.IsBuiltin(info, x, "delete") || an.IsBuiltin(info, x, "clear")) && len(x.Args) >= 1 {
					if v, _ := fieldOf(info, x.Args[0]); v != nil {
						out[v] = append(out[v], write{fn: fn, pos: x.Pos(), deleted: true})
					}
				}
			}
			return true
		})
		return out
	}
	// closure of driver functions reachable from a set of roots by static calls (bounded)
	reach := func(roots []*an.Func, stop map[*an.Func]bool) []*an.Func {
		seen := map[*an.Func]bool{}
		var order []*an.Func
		var visit func(f *an.Func, depth int)
		visit = func(f *an.Func, depth int) {
			if f == nil || seen[f] || stop[f] || f.Body() == nil || depth > 4 {
				return
			}
			seen[f] = true
			order = append(order, f)
			ast.Inspect(f.Body(), func(n ast.Node) bool {
				if call, ok := n.(*ast.CallExpr); ok {
					if callee := an.CalleeFunc(f.Pkg.Info, call); callee != nil && callee.Pkg() != nil && callee.Pkg().Path() == an.PkgDistsys {
						visit(e.Ix.FuncOf(callee), depth+1)
					}
				}
				return true
			})
		}
		for _, r := range roots {
			visit(r, 0)
		}
		return order
	}
	stop := map[*an.Func]bool{abort: true, commit: true}
	sectionFns := reach(e.Ix.MethodsOf(ifT), stop)
	c.Count("section-time functions", len(sectionFns))
	written := map[*types.Var][]write{}
	for _, fn := range sectionFns {
		for v, ws := range writesOf(fn) {
			written[v] = append(written[v], ws...)
		}
	}
	resetBy := func(root *an.Func) map[*types.Var]bool {
		out := map[*types.Var]bool{}
		for _, fn := range reach([]*an.Func{root}, nil) {
			for v := range writesOf(fn) {
				out[v] = true
			}
		}
		return out
	}
	abortResets, commitResets := resetBy(abort), resetBy(commit)
	var fields []*types.Var
	for v := range written {
		fields = append(fields, v)
	}
	sort.Slice(fields, func(i, j int) bool { return fields[i].Name() < fields[j].Name() })
	for _, v := range fields {
		ws := written[v]
		key := "MPCalContext." + v.Name()
		where := ws[0].fn.Name()
		switch {
		case abortResets[v] && commitResets[v]:
			c.Ok(key+":reset-by-abort-and-commit", ws[0].pos, "written at section time (%s), reset by both abort() and commit()", where)
		case abortResets[v]:
			c.Ok(key+":reset-by-abort", ws[0].pos, "written at section time (%s), reset by abort()", where)
		default:
			// scoped: every function that stores a non-nil value clears the field again in a deferred literal
			scoped, any := true, false
			for _, w := range ws {
				if w.nilRHS || w.index || w.deleted {
					if w.index || w.deleted {
						scoped = false
					}
					continue
				}
				any = true
				cleared := false
				ast.Inspect(w.fn.Body(), func(n ast.Node) bool {
					d, ok := n.(*ast.DeferStmt)
					if !ok {
						return true
					}
					lit, ok := an.Unparen(d.Call.Fun).(*ast.FuncLit)
					if !ok {
						return true
					}
					// the last statement of the deferred literal's top level clears the field
					for _, s := range lit.Body.List {
						if as, ok := s.(*ast.AssignStmt); ok && len(as.Lhs) == 1 && len(as.Rhs) == 1 {
							if fv, indexed := fieldOf(w.fn.Pkg.Info, as.Lhs[0]); fv == v && !indexed {
								if id, ok := an.Unparen(as.Rhs[0]).(*ast.Ident); ok && id.Name == "nil" {
									cleared = true
								}
							}
						}
					}
					return true
				})
				if !cleared {
					scoped = false
				}
			}
			if scoped && any {
				c.Ok(key+":scoped-to-the-call", ws[0].pos, "set and cleared (deferred) by the call that uses it (%s)", where)
				continue
			}
			if why, ok := ctxRegistries[v.Name()]; ok {
				insertOnly := true
				for _, w := range ws {
					if !w.index {
						insertOnly = false
					}
				}
				c.Check(insertOnly, key+":insert-only-registry", ws[0].pos, why,
					"the registry "+v.Name()+" is no longer insert-only at section time (reassigned or deleted from in "+where+"): an aborted section's change to it survives the rollback")
				continue
			}
			c.Bad(key+":survives-abort", ws[0].pos, "%s writes MPCalContext.%s while a critical section runs, but abort() never resets it and the write is not scoped to the call: what a rolled-back section stored there steers the next attempt", where, v.Name())
		}
	}
}
