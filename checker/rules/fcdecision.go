package rules

import (
	"go/ast"
	"go/token"
	"go/types"

	"pgoverif/checker/an"
	"pgoverif/checker/core"
)

func init() {
	register(&core.Rule{ID: "FC-DECISION", Props: []string{"C10"}, Floor: 6,
		Doc: "decision table of the round-robin choice oracle: the exploration state is reset only when the label changes, truncated only when the choice id or its bound changed, a fresh digit is pushed only at the top of the stack, the carry is taken exactly when a digit reaches its bound (the odometer otherwise keeps its state across attempts, which is what makes every combination come up within one sweep)",
		Run: runFCDecision})
}

func runFCDecision(c *core.Ctx) {
	e := EnvOf(c.Prog)
	t := mustType(c, e, an.PkgDistsys, "roundRobinFairnessCounter")
	if t == nil {
		return
	}
	stack := mustField(c, t, "counterStack")
	pcF := mustField(c, t, "pc")
	if stack == nil || pcF == nil {
		return
	}
	var nextBody *ast.BlockStmt
	if nf := e.Ix.LookupMethod(an.PkgDistsys, "roundRobinFairnessCounter", "NextFairnessCounter"); nf != nil {
		nextBody = nf.Body()
	}
	storeTo := func(f *types.Var) func(*types.Info, ast.Node) bool {
		return func(info *types.Info, n ast.Node) bool { _, ok := fieldIsAssigned(info, n, f); return ok }
	}
	rows := []dtRow{
		{fn: "BeginCriticalSection", key: "resets-only-on-label-change", why: "the exploration state survives from one attempt of a label to the next and is dropped only when the label changes",
			find: storeTo(stack), bools: []string{"pc==$.pc"}, ref: func(a dtAtoms) bool { return !a.B("pc==$.pc") }},
		{fn: "BeginCriticalSection", key: "remembers-label", why: "the label the state belongs to is recorded when it changes",
			find: storeTo(pcF), bools: []string{"pc==$.pc"}, ref: func(a dtAtoms) bool { return !a.B("pc==$.pc") }},
		{fn: "BeginCriticalSection", key: "carries-at-bound", why: "a digit that reaches its bound wraps and carries into the next outer digit",
			find: func(info *types.Info, n ast.Node) bool {
				as, ok := n.(*ast.AssignStmt)
				if !ok || len(as.Lhs) != 1 || len(as.Rhs) != 1 || as.Tok != token.ASSIGN {
					return false
				}
				be, ok := an.Unparen(as.Rhs[0]).(*ast.BinaryExpr)
				return ok && be.Op == token.QUO
			}, bools: []string{"pc==$.pc"}, ints: map[string]string{"idx": "", "count": "", "ceiling": ""}, intDom: map[string][]int64{"idx": {-1, 0, 1}, "count": {0, 1, 2, 3}, "ceiling": {1, 2, 3}},
			ref: func(a dtAtoms) bool { return a.I("idx") >= 0 && a.I("count") >= a.I("ceiling") },
			// the digit's bound read from the record itself (through a pointer to it, say) instead of a local copy
			alts: []dtRow{{find: func(info *types.Info, n ast.Node) bool {
				as, ok := n.(*ast.AssignStmt)
				if !ok || len(as.Lhs) != 1 || len(as.Rhs) != 1 || as.Tok != token.ASSIGN {
					return false
				}
				be, ok := an.Unparen(as.Rhs[0]).(*ast.BinaryExpr)
				return ok && be.Op == token.QUO
			}, bools: []string{"pc==$.pc"}, ints: map[string]string{"idx": "", "count": "", "$.counterStack[idx].ceiling": ""},
				intDom: map[string][]int64{"idx": {-1, 0, 1}, "count": {0, 1, 2, 3}, "$.counterStack[idx].ceiling": {1, 2, 3}},
				ref:    func(a dtAtoms) bool { return a.I("idx") >= 0 && a.I("count") >= a.I("$.counterStack[idx].ceiling") }}}},
		{fn: "NextFairnessCounter", key: "truncates-on-id-or-bound-change", why: "the digits below a choice are dropped exactly when the choice at this depth is a different one or its number of alternatives changed",
			find: func(info *types.Info, n ast.Node) bool {
				rhs, ok := fieldIsAssigned(info, n, stack)
				if !ok || rhs == nil {
					return false
				}
				_, isSlice := an.Unparen(rhs).(*ast.SliceExpr)
				return isSlice
			},
			bools: []string{"$.counterStack[idx].id==id"}, ints: map[string]string{"idx": "", "len($.counterStack)": "", "$.counterStack[idx].ceiling": "", "ceiling": ""},
			ref: func(a dtAtoms) bool {
				return !(a.I("idx") > a.I("len($.counterStack)")) && a.I("idx") < a.I("len($.counterStack)") &&
					(!a.B("$.counterStack[idx].id==id") || a.I("$.counterStack[idx].ceiling") != a.I("ceiling"))
			}},
		{fn: "NextFairnessCounter", key: "pushes-only-at-top", why: "a new digit is created only for a choice deeper than every recorded one",
			find: func(info *types.Info, n ast.Node) bool {
				rhs, ok := fieldIsAssigned(info, n, stack)
				if !ok || rhs == nil {
					return false
				}
				call, isCall := an.Unparen(rhs).(*ast.CallExpr)
				return isCall && an.IsBuiltin(info, call, "append")
			},
			bools: []string{"$.counterStack[idx].id==id"}, ints: map[string]string{"idx": "", "len($.counterStack)": "", "$.counterStack[idx].ceiling": "", "ceiling": ""},
			ref: func(a dtAtoms) bool { return a.I("idx") == a.I("len($.counterStack)") }},
		{fn: "NextFairnessCounter", key: "advances-depth", why: "each choice of an attempt uses the next digit", find: func(info *types.Info, n ast.Node) bool {
			isIdx := func(x ast.Expr) bool {
				f := an.SelectedField(info, x)
				return f != nil && f.Name() == "counterIdx"
			}
			if inc, ok := n.(*ast.IncDecStmt); ok {
				return inc.Tok == token.INC && isIdx(inc.X)
			}
			// `$.counterIdx += 1`, or `$.counterIdx = d + 1` where d is the field or the local that was read from it
			as, ok := n.(*ast.AssignStmt)
			if !ok || len(as.Lhs) != 1 || len(as.Rhs) != 1 || !isIdx(as.Lhs[0]) {
				return false
			}
			one := func(x ast.Expr) bool {
				tv, has := info.Types[x]
				return has && tv.Value != nil && tv.Value.ExactString() == "1"
			}
			if as.Tok == token.ADD_ASSIGN {
				return one(as.Rhs[0])
			}
			be, isBin := an.Unparen(as.Rhs[0]).(*ast.BinaryExpr)
			if as.Tok != token.ASSIGN || !isBin || be.Op != token.ADD {
				return false
			}
			x, y := be.X, be.Y
			if one(x) {
				x, y = y, x
			}
			if !one(y) {
				return false
			}
			if isIdx(x) {
				return true
			}
			if id, isId := an.Unparen(x).(*ast.Ident); isId && nextBody != nil {
				if d := an.SingleDef(info, nextBody, info.ObjectOf(id)); d != nil && isIdx(d) {
					return true
				}
			}
			return false
		}, ref: func(a dtAtoms) bool { return true }},
	}
	runDecisionRows(c, e, an.PkgDistsys, "roundRobinFairnessCounter", rows)
}
