package rules

import (
	"go/ast"
	"go/types"

	"pgoverif/checker/an"
	"pgoverif/checker/core"
)

func init() {
	register(&core.Rule{ID: "SELECT-DECISION", Props: []string{"C10", "C03"}, Floor: 2,
		Doc: "Value.SelectElement, through which a with statement takes the member the choice oracle named: exactly the idx elements before it are skipped and the element at position idx is returned; a position outside the set is refused, never mapped to another member",
		Run: func(c *core.Ctx) { runSelectFunction(c, true) }})
	register(&core.Rule{ID: "FUNC-DECISION", Props: []string{"C03"}, Floor: 5,
		Doc: "the function constructor [x \\in S, ... |-> e]: one mapping per complete tuple of bound values, keyed by the value itself for a single bound and by the tuple otherwise, every element of every bound set visited, one level at a time",
		Run: func(c *core.Ctx) { runSelectFunction(c, false) }})
}

func runSelectFunction(c *core.Ctx, selectPart bool) {
	e := EnvOf(c.Prog)
	setCall := func(info *types.Info, n ast.Node) bool {
		call, ok := n.(*ast.CallExpr)
		if !ok {
			return false
		}
		sel, ok := an.Unparen(call.Fun).(*ast.SelectorExpr)
		return ok && sel.Sel.Name == "Set"
	}
	helperCall := func(initial bool) func(*types.Info, ast.Node) bool {
		return func(info *types.Info, n ast.Node) bool {
			call, ok := n.(*ast.CallExpr)
			if !ok || len(call.Args) != 1 {
				return false
			}
			id, ok := an.Unparen(call.Fun).(*ast.Ident)
			if !ok || !isRecClosure(info, id) {
				return false
			}
			tv := info.Types[call.Args[0]]
			isInit := tv.Value != nil && tv.Value.ExactString() == "0"
			return isInit == initial
		}
	}
	var selectBody *ast.BlockStmt
	if f := e.Ix.LookupMethod(an.PkgTLA, "Value", "SelectElement"); f != nil {
		selectBody = f.Body()
	}
	all := []dtRow{
		// selection of the idx-th element (the with statement's choice)
		{fn: "Value.SelectElement", key: "skips-exactly-idx-elements", why: "the elements before position idx are skipped, no more", find: func(info *types.Info, n ast.Node) bool {
			as, ok := n.(*ast.AssignStmt)
			if !ok || len(as.Lhs) != 3 || len(as.Rhs) != 1 {
				return false
			}
			for _, l := range as.Lhs {
				if id, ok := l.(*ast.Ident); !ok || id.Name != "_" {
					return false
				}
			}
			return true
		}, ints: map[string]string{"i": "", "idx": ""}, bools: []string{"it.Done()"}, ref: func(a dtAtoms) bool { return a.I("i") < a.I("idx") && !a.B("it.Done()") }},
		{fn: "Value.SelectElement", key: "returns-the-element-at-idx", why: "the element returned is the one at position idx; a position outside the set is refused", find: func(info *types.Info, n ast.Node) bool {
			// a return of the variable that received the first component of an iterator's Next()
			r, ok := n.(*ast.ReturnStmt)
			if !ok || len(r.Results) != 1 {
				return false
			}
			o := an.ObjOf(info, r.Results[0])
			if o == nil || selectBody == nil {
				return false
			}
			fromNext := false
			ast.Inspect(selectBody, func(m ast.Node) bool {
				as, isAs := m.(*ast.AssignStmt)
				if !isAs || len(as.Lhs) != 3 || len(as.Rhs) != 1 || an.ObjOf(info, as.Lhs[0]) != o {
					return true
				}
				if call, isCall := an.Unparen(as.Rhs[0]).(*ast.CallExpr); isCall {
					if sel, isSel := an.Unparen(call.Fun).(*ast.SelectorExpr); isSel && sel.Sel.Name == "Next" {
						fromNext = true
					}
				}
				return true
			})
			return fromNext
		}, ints: map[string]string{"i": "", "idx": ""}, bools: []string{"it.Done()"}, existsOthers: true, ref: func(a dtAtoms) bool { return !a.B("it.Done()") && a.I("i") == a.I("idx") }},
		// function constructor
		{fn: ".MakeFunction", key: "defines-at-full-depth", why: "one mapping per complete tuple of bound values", find: setCall,
			ints: map[string]string{"idx": "", "len(bodyArgs)": ""}, ref: func(a dtAtoms) bool { return a.I("idx") == a.I("len(bodyArgs)") }},
		{fn: ".MakeFunction", key: "single-bound-keys-are-not-tuples", why: "[x \\in S |-> e] is keyed by x, [x \\in S, y \\in T |-> e] by <<x, y>>", find: func(info *types.Info, n ast.Node) bool {
			if !setCall(info, n) {
				return false
			}
			call := n.(*ast.CallExpr)
			_, isIdx := an.Unparen(call.Args[0]).(*ast.IndexExpr)
			return isIdx
		}, ints: map[string]string{"idx": "", "len(bodyArgs)": ""}, ref: func(a dtAtoms) bool { return a.I("idx") == a.I("len(bodyArgs)") && a.I("len(bodyArgs)") == 1 }},
		{fn: ".MakeFunction", key: "recurses-for-every-element", why: "every element of every bound set is visited", find: helperCall(false),
			ints: map[string]string{"idx": "", "len(bodyArgs)": ""}, bools: []string{"it.Done()"}, ref: func(a dtAtoms) bool { return a.I("idx") != a.I("len(bodyArgs)") && !a.B("it.Done()") }},
		{fn: ".MakeFunction", key: "recurses-one-level-down", why: "the next bound variable is the next one", find: helperCall(false), valueOf: func(info *types.Info, n ast.Node) ast.Expr { return n.(*ast.CallExpr).Args[0] },
			ints: map[string]string{"idx": "", "len(bodyArgs)": ""}, bools: []string{"it.Done()"}, optional: true, refInt: func(a dtAtoms) int64 { return a.I("idx") + 1 }},
		{fn: ".MakeFunction", key: "starts-at-the-first-bound", why: "the enumeration starts", find: helperCall(true), existsOthers: true, ref: func(a dtAtoms) bool { return true }},
	}
	var rows []dtRow
	for _, r := range all {
		if (r.fn == "Value.SelectElement") == selectPart {
			rows = append(rows, r)
		}
	}
	runDecisionRows(c, e, an.PkgTLA, "", rows)
}
