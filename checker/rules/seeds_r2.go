package rules

// Seeds for the rules added in the second round (sweep- and mutant-guided strengthening).
func init() {
	const ai = "distsys/archetypeinterface.go"
	const ctx = "distsys/mpcalctx.go"
	const res = "distsys/resources/"
	// ERR-PROPAGATE
	seed(Seed{Name: "write-ignores-index-error", Prop: "C01", Rule: "ERR-PROPAGATE", File: ai,
		Old: "\tres := iface.ctx.getResourceByHandle(handle)\n\tfor _, index := range indices {\n\t\tres, err = res.Index(iface, index)\n\t\tif err != nil {\n\t\t\treturn\n\t\t}\n\t}\n\n\t// Here we set",
		New: "\tres := iface.ctx.getResourceByHandle(handle)\n\tfor _, index := range indices {\n\t\tres, err = res.Index(iface, index)\n\t}\n\n\t// Here we set", Expect: "Write:Index"})
	seed(Seed{Name: "call-continues-after-failed-bind", Prop: "C04", Rule: "ERR-PROPAGATE", File: ai,
		Old: "\t\t\terr = iface.Write(argHandle, nil, argVals[argIdx])\n\t\t\tif err != nil {\n\t\t\t\treturn err\n\t\t\t}\n", New: "\t\t\terr = iface.Write(argHandle, nil, argVals[argIdx])\n\t\t\tif err != nil {\n\t\t\t\tcontinue\n\t\t\t}\n", Expect: "Call:Write"})
	seed(Seed{Name: "run-ignores-pc-read-error", Prop: "C01", Rule: "ERR-PROPAGATE", File: ctx,
		Old: "\t\tpcVal, err = ctx.iface.Read(pc, nil)\n\t\tif err != nil {\n\t\t\tcontinue\n\t\t}\n", New: "\t\tpcVal, err = ctx.iface.Read(pc, nil)\n", Expect: "Run:Read"})
	// CS-ORDER joins / CS-DIRTY mark
	seed(Seed{Name: "commit-forgets-async-precommit", Prop: "C01", Rule: "CS-ORDER", File: ctx,
		Old: "\t\t\tnonTrivialPreCommits = append(nonTrivialPreCommits, ch)\n", New: "\t\t\t_ = ch\n", Expect: "PreCommit#1-joined"})
	seed(Seed{Name: "abort-does-not-drain", Prop: "C01", Rule: "CS-ORDER", File: ctx,
		Old: "\tfor _, ch := range nonTrivialAborts {\n\t\t<-ch\n\t}\n", New: "\t_ = nonTrivialAborts\n", Expect: "Abort#1-joined"})
	seed(Seed{Name: "dirty-mark-dropped", Prop: "C01", Rule: "CS-DIRTY", File: ai,
		Old: "\tiface.ctx.dirtyResourceHandles[handle] = true\n", New: "\t_ = handle\n", Expect: "marks-handle-dirty"})
	// RES-JOIN
	seed(Seed{Name: "incmap-precommit-masks-refusal", Prop: "C01", Rule: "RES-JOIN", File: res + "incmap.go",
		Old: "\t\t\t\terr = <-ch\n\t\t\t\tif err != nil {\n\t\t\t\t\tbreak\n\t\t\t\t}\n", New: "\t\t\t\terr = <-ch\n", Expect: "IncMap.PreCommit"})
	seed(Seed{Name: "hashmap-commit-never-drains", Prop: "C01", Rule: "RES-JOIN", File: res + "hashmap.go",
		Old: "\t\tch := r.Commit(iface)\n\t\tif ch != nil {\n\t\t\tnonTrivialOps = append(nonTrivialOps, ch)\n\t\t}\n", New: "\t\tch := r.Commit(iface)\n\t\t_ = ch\n", Expect: "HashMap.Commit"})
	seed(Seed{Name: "persistent-commit-does-not-wait", Prop: "C01", Rule: "RES-JOIN", File: res + "persistent.go",
		Old: "\t\tch := res.wrappedRes.Commit(iface)\n\t\tif ch != nil {\n\t\t\t<-ch\n\t\t}\n", New: "\t\tch := res.wrappedRes.Commit(iface)\n\t\t_ = ch\n", Expect: "Persistent.Commit"})
	// RES-FORWARD stable child
	seed(Seed{Name: "incmap-forgets-created-child", Prop: "C01", Rule: "RES-FORWARD", File: res + "incmap.go",
		Old: "\tres.realizedMap.Set(index, subRes)\n", New: "", Expect: "stable-child"})
	// IO-ERR
	seed(Seed{Name: "send-continues-after-failed-begin", Prop: "C06", Rule: "IO-ERR", File: res + "tcpmailboxes.go",
		Old: "\t\terr = res.connEncoder.Encode(tcpNetworkBegin)\n\t\tif err != nil {\n\t\t\treturn handleError()\n\t\t}\n", New: "\t\terr = res.connEncoder.Encode(tcpNetworkBegin)\n\t\tif err != nil {\n\t\t\t_ = handleError()\n\t\t}\n", Expect: "tcpMailboxesRemote.WriteValue"})
	seed(Seed{Name: "precommit-ack-error-unchecked", Prop: "C01", Rule: "IO-ERR", File: res + "tcpmailboxes.go",
		Old: "\t\terr = res.connDecoder.Decode(&ack)\n\t\tif err != nil {\n\t\t\thandleError()\n\t\t\treturn\n\t\t}\n", New: "\t\terr = res.connDecoder.Decode(&ack)\n", Expect: "tcpMailboxesRemote.PreCommit"})
	seed(Seed{Name: "write-handler-on-success-branch", Prop: "C06", Rule: "IO-ERR", File: res + "tcpmailboxes.go",
		Old: "\terr = res.connEncoder.Encode(&value)\n\tif err != nil {\n\t\treturn handleError()\n\t}\n", New: "\terr = res.connEncoder.Encode(&value)\n\tif err == nil {\n\t\treturn handleError()\n\t}\n", Expect: "tcpMailboxesRemote.WriteValue"})
	// MB batch conservation
	seed(Seed{Name: "readvalue-drops-rest-of-batch", Prop: "C06", Rule: "MB-BACKLOGFIRST", File: res + "tcpmailboxes.go",
		Old: "\t\tres.readBacklog = append(res.readBacklog, record.values[1:]...)\n", New: "", Expect: "batch-conserved"})
	// LS primitives
	seed(Seed{Name: "release-does-not-return-token", Prop: "C07", Rule: "LS-TIMED", File: res + "localshared.go",
		Old: "func (sv *LocalSharedManager) release() {\n\t<-sv.lockCh\n}", New: "func (sv *LocalSharedManager) release() {\n}", Expect: "release:token"})
	seed(Seed{Name: "getstate-locks-when-held", Prop: "C07", Rule: "LS-2PL", File: res + "localshared.go",
		Old: "\tif !res.hasLock {\n\t\tres.sharedRes.acquire()\n\t\tdefer res.sharedRes.release()\n\t}", New: "\tif res.hasLock {\n\t\tres.sharedRes.acquire()\n\t\tdefer res.sharedRes.release()\n\t}", Expect: "acquire-iff-not-held"})
	// Stop case analysis
	seed(Seed{Name: "stop-closes-while-running", Prop: "C17", Rule: "CLOSE-ONCE", File: ctx,
		Old: "\t\tif ctx.requestExit != nil {\n\t\t\t// case 1a", New: "\t\tif ctx.requestExit == nil {\n\t\t\t// case 1a", Expect: "Stop:"})
	seed(Seed{Name: "stop-before-run-keeps-flag-clear", Prop: "C17", Rule: "CLOSE-ONCE", File: ctx,
		Old: "\t\t\t\tctx.exitRequested = true\n\t\t\t\tselect {\n\t\t\t\tcase <-ctx.awaitExit:", New: "\t\t\t\tselect {\n\t\t\t\tcase <-ctx.awaitExit:", Expect: "not-running-sets-flag"})
	// CALL-ORDER binding guard
	seed(Seed{Name: "call-binds-beyond-arguments", Prop: "C04", Rule: "CALL-ORDER", File: ai,
		Old: "\t\tif argIdx < len(argVals) {\n\t\t\terr = iface.Write(argHandle, nil, argVals[argIdx])", New: "\t\tif argIdx <= len(argVals)-1 || len(argVals) == 0 && false {\n\t\t\terr = iface.Write(argHandle, nil, argVals[argIdx])", Expect: "binds-ith-argument"})
	// HINT-PAIR
	seed(Seed{Name: "hint-not-deposited", Prop: "C18", Rule: "HINT-PAIR", File: ai,
		Old: "\t\t*iface.ctx.oldValueHintReceiver = oldValue\n", New: "\t\t_ = oldValue\n", Expect: "deposits-through-armed-receiver"})
	seed(Seed{Name: "hint-passed-when-not-consumed", Prop: "C18", Rule: "HINT-PAIR", File: ai,
		Old: "\t\thasOldValueHint := iface.ctx.oldValueHintReceiver == nil\n", New: "\t\thasOldValueHint := iface.ctx.oldValueHintReceiver != nil\n", Expect: "hint-passed-iff-consumed"})
	// C12 round 2
	seed(Seed{Name: "gcounter-decode-reuses-pair", Prop: "C12", Rule: "GOB-FRESH", File: res + "gcounter.go",
		Old: "\tfor {\n\t\tvar pair GCounterKeyVal\n", New: "\tvar pair GCounterKeyVal\n\tfor {\n", Expect: "GCounter.GobDecode"})
	seed(Seed{Name: "compare-walks-receiver-only", Prop: "C12", Rule: "OPERAND-TRAVERSED", File: res + "aworset.go",
		Old: "\ti2 := other.Iterator()\n", New: "\ti2 := vc.Iterator()\n", Expect: "compare:the argument"})
	seed(Seed{Name: "lww-add-only-if-absent", Prop: "C12", Rule: "WRITE-UNCOND", File: res + "lww.go",
		Old: "\t\ts.addSet = s.addSet.Set(elem, time.Now())\n", New: "\t\tif !s.isIn(elem) {\n\t\t\ts.addSet = s.addSet.Set(elem, time.Now())\n\t\t}\n", Expect: "addOp-recorded"})
	// C11 round 2
	seed(Seed{Name: "precommit-ignores-poisoned-section", Prop: "C11", Rule: "TPC-POISON", File: res + "twopc.go",
		Old: "\treturn res.criticalSectionPermanentlyFailed() ||\n\t\tres.twoPCState == acceptedPreCommit\n", New: "\treturn res.criticalSectionState == failedPreCommit ||\n\t\tres.twoPCState == acceptedPreCommit\n", Expect: "state=inPreCommit"})
	seed(Seed{Name: "precommit-success-despite-new-value", Prop: "C11", Rule: "TPC-POISON", File: res + "twopc.go",
		Old: "\tif !success || res.criticalSectionState == acceptedNewValueInCriticalSection {", New: "\tif !success {", Expect: "state=hasPreCommitted"})
	seed(Seed{Name: "abort-sender-gives-up-after-error", Prop: "C11", Rule: "TPC-RETRY", File: res + "twopc.go",
		Old: "(will retry)\", request.RequestType, i, err)\n\t\t\t\ttime.Sleep(1 * time.Second)\n", New: "(will retry)\", request.RequestType, i, err)\n\t\t\t\tbreak\n", Expect: "retry-until-delivered"})
	// C13 round 2
	seed(Seed{Name: "crdt-abort-restores-when-no-snapshot", Prop: "C13", Rule: "CRDT-SECTION", File: res + "crdt.go",
		Old: "\tif res.hasOldValue {\n\t\tres.value = res.oldValue\n", New: "\tif !res.hasOldValue {\n\t\tres.value = res.oldValue\n", Expect: "Abort:restores-iff-snapshot"})
	seed(Seed{Name: "crdt-commit-arms-when-not-written", Prop: "C13", Rule: "CRDT-SECTION", File: res + "crdt.go",
		Old: "\tif hasWritten {\n", New: "\tif !hasWritten {\n", Expect: "Commit:arms-iff-written"})
	seed(Seed{Name: "crdt-write-not-applied", Prop: "C13", Rule: "CRDT-SECTION", File: res + "crdt.go",
		Old: "\tres.value = res.value.Write(res.id, value)\n", New: "\t_ = value\n", Expect: "WriteValue:applies-write"})
	seed(Seed{Name: "crdt-broadcast-skips-when-owed", Prop: "C13", Rule: "CRDT-SECTION", File: res + "crdt.go",
		Old: "\t\treturn res.needBroadcastCount > 0\n\t}() {", New: "\t\treturn res.needBroadcastCount <= 0\n\t}() {", Expect: "skips-only-when-budget-spent"})
	seed(Seed{Name: "crdt-spends-budget-on-error", Prop: "C13", Rule: "CRDT-SECTION", File: res + "crdt.go",
		Old: "\t\t\tif call.Error != nil {\n", New: "\t\t\tif call.Error == nil {\n", Expect: "broadcast:"})
	seed(Seed{Name: "crdt-merger-never-started", Prop: "C13", Rule: "CRDT-SECTION", File: res + "crdt.go",
		Old: "\tgo crdt.merger()\n", New: "", Expect: "starts-merger"})
	seed(Seed{Name: "crdt-handoff-nonblocking", Prop: "C13", Rule: "CRDT-SECTION", File: res + "crdt.go",
		Old: "\t\tres.mergeValues <- rcvd\n", New: "\t\tselect {\n\t\tcase res.mergeValues <- rcvd:\n\t\tdefault:\n\t\t}\n", Expect: "blocking-handoff"})
	// ITER-FRESH
	seed(Seed{Name: "forall-parks-iterators", Prop: "C03", Rule: "ITER-FRESH", File: "distsys/tla/builtins.go",
		Old: "\tvar helper func(idx int) bool\n\thelper = func(idx int) bool {\n\t\tif idx == len(sets) {\n\t\t\treturn pred(predArgs)\n\t\t}\n\n\t\tit := sets[idx].Iterator()\n\t\tfor !it.Done() {\n\t\t\telem, _, _ := it.Next()\n\t\t\tpredArgs[idx] = elem\n\t\t\tif !helper(idx + 1) {",
		New: "\tparked := map[int]*immutable.MapIterator[Value, bool]{}\n\tvar helper func(idx int) bool\n\thelper = func(idx int) bool {\n\t\tif idx == len(sets) {\n\t\t\treturn pred(predArgs)\n\t\t}\n\n\t\tif parked[idx] == nil {\n\t\t\tparked[idx] = sets[idx].Iterator()\n\t\t}\n\t\tit := parked[idx]\n\t\tfor !it.Done() {\n\t\t\telem, _, _ := it.Next()\n\t\t\tpredArgs[idx] = elem\n\t\t\tif !helper(idx + 1) {", Expect: "QuantifiedUniversal"})
	// TPC-DECISION
	seed(Seed{Name: "acceptor-accepts-same-version-from-other-proposer", Prop: "C11", Rule: "TPC-DECISION", File: res + "twopc.go",
		Old: "\t\t\t(twopc.acceptedPreCommit.Version == arg.Version &&\n\t\t\t\ttwopc.acceptedPreCommit.Sender.Equal(arg.Sender))) {", New: "\t\t\t(twopc.acceptedPreCommit.Version == arg.Version)) {", Expect: "receiveInternal:records-precommit"})
	seed(Seed{Name: "acceptor-stale-window-off-by-one", Prop: "C11", Rule: "TPC-DECISION", File: res + "twopc.go",
		Old: "\t} else if arg.Version < twopc.version+1 {", New: "\t} else if arg.Version < twopc.version {", Expect: "receiveInternal:"})
	seed(Seed{Name: "quorum-one-short-for-odd-groups", Prop: "C11", Rule: "TPC-DECISION", File: res + "twopc.go",
		Old: "\t\trequired = len(res.replicas)/2 + 1\n", New: "\t\trequired = len(res.replicas) / 2\n", Expect: "broadcast:quorum-size"})
	seed(Seed{Name: "canaccept-while-precommitting", Prop: "C11", Rule: "TPC-DECISION", File: res + "twopc.go",
		Old: "\t\tstate == acceptedNewValueInCriticalSection\n}", New: "\t\tstate == acceptedNewValueInCriticalSection ||\n\t\tstate == inPreCommit\n}", Expect: "canAcceptPreCommit"})
	seed(Seed{Name: "proposal-reuses-current-version", Prop: "C11", Rule: "TPC-DECISION", File: res + "twopc.go",
		Old: "\t\tRequestType: PreCommit,\n\t\tValue:       res.value,\n\t\tSender:      res.archetypeID,\n\t\tVersion:     res.version + 1,", New: "\t\tRequestType: PreCommit,\n\t\tValue:       res.value,\n\t\tSender:      res.archetypeID,\n\t\tVersion:     res.version,", Expect: "makePreCommit:next-version"})
	seed(Seed{Name: "abort-keeps-written-value", Prop: "C11", Rule: "TPC-DECISION", File: res + "twopc.go",
		Old: "\t\tres.value = res.oldValue\n\t\tif res.criticalSectionState == hasPreCommitted {", New: "\t\tif res.criticalSectionState == hasPreCommitted {", Expect: "Abort:restores-value"})
}
