package rules

import (
	"go/ast"
	"os"
	"path/filepath"
	"sort"
	"strings"

	"pgoverif/checker/an"
	"pgoverif/checker/core"
	"pgoverif/checker/load"
	"pgoverif/checker/scalatab"
	"pgoverif/checker/specmatch"
)

func init() {
	register(&core.Rule{ID: "SPEC-MATCH", Props: []string{"C02"}, Floor: 300,
		Doc: "translation validation, purely syntactic: for every generated package (a package with a MakeMPCalJumpTable literal) the MPCal block of its .tla file is parsed, normalised like MPCalNormalizePass (macro expansion, label flattening with synthetic gotos, multiple-assignment desugaring) and every critical section, archetype/procedure table entry and operator definition is compared token by token with what the Go code-generator templates, inverted, recover from the Go source; every Goto/Call target must exist (JT-CLOSED)",
		Run: runSpecMatch})
	register(&core.Rule{ID: "RAFT-FIDELITY", Props: []string{"C08"}, Floor: 40,
		Doc: "the server side of the generated Raft store (archetypes AServer*, their table entries and the operator definitions of raftkvs) is, section by section, the image of raftkvs.tla: the Raft safety invariants are known for the model-checked specification and carry over only to an implementation that takes exactly its steps (vote-granting, log-consistency, commit and term rules). This is the one static handle on the invariants; it is the basis of the argument, not a logical necessary condition, and it deliberately ignores the client archetype, which cannot affect them",
		Run: runRaftFidelity})
}

// fidelityRule registers a rule that restricts the SPEC-MATCH comparison to the generated packages of one
// system family (and, optionally, to some of their units).
type fidelityScope struct {
	id, prop string
	floor    int
	pkgs     []string               // systems/<name> suffixes
	skip     func(rest string) bool // obligations (key without the pair name) that are not this property's business
	doc      string
}

func registerFidelity(s fidelityScope) {
	register(&core.Rule{ID: s.id, Props: []string{s.prop}, Floor: s.floor, Doc: s.doc, Run: func(c *core.Ctx) { runFidelity(c, s) }})
}

func init() {
	const basis = " The invariants are stated and model-checked for the specification; they carry over to the Go only as long as the Go takes exactly the specification's steps. This is the static handle on them (the basis of the safety argument, not the invariant itself, and not a logical necessary condition: a deliberately different protocol has to come with its own specification)."
	registerFidelity(fidelityScope{id: "KV-FIDELITY", prop: "C09", floor: 55, pkgs: []string{"systems/raftkvs"},
		doc: "every critical section of the generated Raft store - servers (an entry is answered only when applied at the leader; Gets go through the log) and client (request numbering, retry, filtering of stale / duplicate responses by idx) -, every archetype table entry and operator definition is the image of raftkvs.tla." + basis})
	registerFidelity(fidelityScope{id: "PB-FIDELITY", prop: "C14", floor: 35, pkgs: []string{"systems/pbkvs"},
		doc: "every critical section of the generated primary-backup store (synchronous replication to all live backups before answering, synchronisation of a new primary to the highest version, client retry) and every table entry / operator definition is the image of pbkvs.tla." + basis})
	registerFidelity(fidelityScope{id: "LOCK-FIDELITY", prop: "C15", floor: 15, pkgs: []string{"systems/locksvc"},
		doc: "every critical section of the generated lock service (grant on empty queue, grant to the next in queue on unlock, queue append / tail) and every table entry / operator definition is the image of locksvc.tla." + basis})
	registerFidelity(fidelityScope{id: "SYS-FIDELITY", prop: "C16", floor: 150,
		pkgs: []string{"systems/dqueue", "systems/loadbalancer", "systems/proxy", "systems/shcounter", "systems/gcounter", "systems/shopcart", "systems/nestedcrdtimpl", "systems/replicatedkv"},
		doc:  "every critical section, table entry and operator definition of the generated dqueue, load balancer, proxy, shared counter, gcounter, shopcart, nested CRDT and replicated KV systems is the image of its specification (this includes every assertion written in a specification: a dropped or weakened assert is a mismatch)." + basis})
}

func runFidelity(c *core.Ctx, s fidelityScope) {
	tabs, err := scalatab.Load(c.Prog.Root)
	if err != nil {
		c.Lost("scala-tables", "%v", err)
		return
	}
	pairs, pkgs := specPairs(c.Prog)
	want := map[string]bool{}
	for _, p := range s.pkgs {
		want[an.ModPrefix+p] = false
	}
	for i, pr := range pairs {
		if _, ok := want[pr[0]]; !ok {
			continue
		}
		want[pr[0]] = true
		name := an.ShortPkg(pr[0])
		if pr[1] == "" {
			c.Bad(name+"/spec", pkgs[i].Files[0].Pos(), "%s has no .tla file with an --mpcal block next to it", name)
			continue
		}
		n := 0
		for _, o := range specmatch.MatchPair(pkgs[i], pr[1], tabs, c.Prog.Fset, name, c.Prog.ReadFile) {
			rest := strings.TrimPrefix(o.Key, name+"/")
			if s.skip != nil && s.skip(rest) {
				continue
			}
			n++
			switch o.Verdict {
			case "ok":
				c.Ok(o.Key, o.Pos, "%s", o.Detail)
			case "bad":
				c.Bad(o.Key, o.Pos, "%s", o.Detail)
			default:
				c.Undecided(o.Key, o.Pos, "%s", o.Detail)
			}
		}
		c.Count("obligations of "+name, n)
	}
	var missing []string
	for p, ok := range want {
		if !ok {
			missing = append(missing, p)
		}
	}
	sort.Strings(missing)
	for _, p := range missing {
		c.Lost(an.ShortPkg(p), "generated package %s (a package with a jump table) not found", p)
	}
}

func runRaftFidelity(c *core.Ctx) {
	tabs, err := scalatab.Load(c.Prog.Root)
	if err != nil {
		c.Lost("scala-tables", "%v", err)
		return
	}
	pairs, pkgs := specPairs(c.Prog)
	found := false
	for i, pr := range pairs {
		if pr[0] != an.ModPrefix+"systems/raftkvs" {
			continue
		}
		found = true
		name := an.ShortPkg(pr[0])
		if pr[1] == "" {
			c.Bad(name+"/spec", pkgs[i].Files[0].Pos(), "raftkvs has no .tla file with an --mpcal block next to it")
			continue
		}
		for _, o := range specmatch.MatchPair(pkgs[i], pr[1], tabs, c.Prog.Fset, name, c.Prog.ReadFile) {
			rest := strings.TrimPrefix(o.Key, name+"/")
			if strings.HasPrefix(rest, "AClient") {
				continue
			}
			switch o.Verdict {
			case "ok":
				c.Ok(o.Key, o.Pos, "%s", o.Detail)
			case "bad":
				c.Bad(o.Key, o.Pos, "%s", o.Detail)
			default:
				c.Undecided(o.Key, o.Pos, "%s", o.Detail)
			}
		}
	}
	if !found {
		c.Lost("raftkvs", "generated package systems/raftkvs not found")
	}
}

// specPairs discovers generated packages and their specs.
func specPairs(p *load.Program) (pairs [][2]string, pkgs []*load.Package) {
	for _, pk := range p.Sorted() {
		has := false
		for _, f := range pk.Files {
			ast.Inspect(f, func(n ast.Node) bool {
				if call, ok := n.(*ast.CallExpr); ok {
					if fn := an.CalleeFunc(pk.Info, call); an.IsFuncNamed(fn, an.PkgDistsys, "MakeMPCalJumpTable") {
						has = true
					}
				}
				return !has
			})
		}
		if !has || pk.Path == an.PkgDistsys {
			continue
		}
		dir := pk.Dir
		var tla string
		if strings.HasSuffix(dir, ".gotests") {
			tla = strings.TrimSuffix(dir, ".gotests")
		} else {
			ms, _ := filepath.Glob(filepath.Join(dir, "*.tla"))
			sort.Strings(ms)
			for _, m := range ms {
				if b, err := os.ReadFile(m); err == nil && strings.Contains(string(b), "--mpcal") {
					tla = m
					break
				}
			}
		}
		pairs = append(pairs, [2]string{pk.Path, tla})
		pkgs = append(pkgs, pk)
	}
	return
}

func runSpecMatch(c *core.Ctx) {
	tabs, err := scalatab.Load(c.Prog.Root)
	if err != nil {
		c.Lost("scala-tables", "%v", err)
		return
	}
	pairs, pkgs := specPairs(c.Prog)
	c.Count("spec/Go pairs", len(pairs))
	if len(pairs) < 23 {
		c.Lost("pairs", "only %d spec/Go pairs discovered (expected >= 23)", len(pairs))
	}
	for i, pr := range pairs {
		name := an.ShortPkg(pr[0])
		if pr[1] == "" {
			c.Bad(name+"/spec", pkgs[i].Files[0].Pos(), "generated package %s has no .tla file with an --mpcal block next to it", pr[0])
			continue
		}
		obs := specmatch.MatchPair(pkgs[i], pr[1], tabs, c.Prog.Fset, name, c.Prog.ReadFile)
		for _, o := range obs {
			switch o.Verdict {
			case "ok":
				c.Ok(o.Key, o.Pos, "%s", o.Detail)
			case "bad":
				c.Bad(o.Key, o.Pos, "%s", o.Detail)
			default:
				c.Undecided(o.Key, o.Pos, "%s", o.Detail)
			}
		}
	}
}
