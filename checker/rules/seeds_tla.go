package rules

func init() {
	const sym = "distsys/tla/symbols.go"
	const val = "distsys/tla/value.go"
	seed(Seed{Name: "union-outer-iterator", Prop: "C03", Rule: "ITER-ADVANCE", File: sym,
		Old: "elem, _, _ := innerIt.Next()", New: "elem, _, _ := it.Next()", Expect: "ModulePrefixUnionSymbol"})
	seed(Seed{Name: "percent-truncates", Prop: "C03", Rule: "DIVMOD-FLOOR", File: sym,
		Old: "remainder := lhs.AsNumber() % rhsNum\n\tif remainder < 0 {\n\t\tremainder += rhsNum\n\t}\n\treturn MakeNumber(remainder)",
		New: "return MakeNumber(lhs.AsNumber() % rhsNum)", Expect: "ModulePercentSymbol"})
	seed(Seed{Name: "div-truncates", Prop: "C03", Rule: "DIVMOD-FLOOR", File: sym,
		Old: "\tif lhsNum%rhsNum != 0 && (lhsNum < 0) != (rhsNum < 0) {\n\t\tquotient--\n\t}\n", New: "", Expect: "ModuleDivSymbol"})
	seed(Seed{Name: "plus-wraps", Prop: "C03", Rule: "ARITH-CHECKED", File: sym,
		Old: "makeNumberChecked(int64(lhs.AsNumber()) + int64(rhs.AsNumber()))", New: "MakeNumber(lhs.AsNumber() + rhs.AsNumber())", Expect: "ModulePlusSymbol"})
	seed(Seed{Name: "range-check-dropped", Prop: "C03", Rule: "ARITH-CHECKED", File: sym,
		Old: "\trequire(result <= math.MaxInt32 && result >= math.MinInt32, \"integer overflow: arithmetic must remain within int32 range\")\n", New: "", Expect: "makeNumberChecked"})
	seed(Seed{Name: "dotdot-int32-counter", Prop: "C03", Rule: "ARITH-CHECKED", File: sym,
		Old: "from, to := int64(lhs.AsNumber()), int64(rhs.AsNumber())\n\tbuilder := immutable.NewMapBuilder[Value, bool](ValueHasher{})\n\tfor i := from; i <= to; i++ {\n\t\tbuilder.Set(MakeNumber(int32(i)), true)",
		New: "from, to := lhs.AsNumber(), rhs.AsNumber()\n\tbuilder := immutable.NewMapBuilder[Value, bool](ValueHasher{})\n\tfor i := from; i <= to; i++ {\n\t\tbuilder.Set(MakeNumber(i), true)", Expect: "ModuleDotDotSymbol"})
	seed(Seed{Name: "subset-linear", Prop: "C03", Rule: "CARD-BOUND", File: sym,
		Old: "\t\tfor _, subset := range subsets[:len(subsets):len(subsets)] {\n\t\t\tsubsets = append(subsets, subset.Set(elem, true))\n\t\t}\n\t}\n\tbuilder := immutable.NewMapBuilder[Value, bool](ValueHasher{})\n\tfor _, subset := range subsets {\n\t\tbuilder.Set(MakeSetFromMap(subset), true)\n\t}",
		New: "\t\tsubsets[0] = subsets[0].Set(elem, true)\n\t}\n\tbuilder := immutable.NewMapBuilder[Value, bool](ValueHasher{})\n\tit2 := set.Iterator()\n\tfor !it2.Done() {\n\t\telem, _, _ := it2.Next()\n\t\tbuilder.Set(MakeSetFromMap(subsets[0].Delete(elem)), true)\n\t}", Expect: "ModulePrefixSubsetSymbol"})
	seed(Seed{Name: "untyped-panic", Prop: "C03", Rule: "PANIC-TYPED", File: val,
		Old: "panic(fmt.Errorf(\"%w: could not apply %v\", ErrTLAType, v))", New: "panic(fmt.Errorf(\"could not apply %v\", v))", Expect: "ApplyFunction"})
	seed(Seed{Name: "notin-ignores-lhs", Prop: "C03", Rule: "PARAM-USED", File: sym,
		Old: "_, ok := set.Get(lhs)\n\treturn MakeBool(!ok)", New: "_, ok := set.Get(rhs)\n\treturn MakeBool(!ok)", Expect: "ModuleNotInSymbol"})
	seed(Seed{Name: "head-unchecked", Prop: "C03", Rule: "SEQ-BOUNDS", File: sym,
		Old: "\trequire(tuple.Len() > 0, \"to call Head, tuple must not be empty\")\n", New: "", Expect: "ModuleHead"})
	seed(Seed{Name: "optable-missing-operator", Prop: "C03", Rule: "OPTABLE", File: sym,
		Old: "func ModuleIsFiniteSet(", New: "func ModuleIsFiniteSetX(", Expect: "ModuleIsFiniteSet"})

	seed(Seed{Name: "tuple-equal-data-deref", Prop: "C05", Rule: "EQ-NILSAFE", File: val,
		Old: "!elem1.Equal(elem2)", New: "!elem1.data.Equal(elem2)", Expect: "valueTuple.Equal"})
	seed(Seed{Name: "set-hash-sequential", Prop: "C05", Rule: "HASH-COMMUT", File: val,
		Old: "hash ^= keyV.Hash()", New: "hash = hash*31 + keyV.Hash()", Expect: "valueSet.Hash"})
	seed(Seed{Name: "causal-gob-order", Prop: "C05", Rule: "GOB-PAIR", File: val,
		Old: "\tencoder.Encode(&v.clock)\n\tencoder.Encode(&v.Value)\n", New: "\tencoder.Encode(&v.Value)\n\tencoder.Encode(&v.clock)\n", Expect: "valueCausalWrapped"})
	seed(Seed{Name: "tuple-not-registered", Prop: "C05", Rule: "GOB-REG", File: val,
		Old: "\tgob.Register(&valueTuple{})\n", New: "", Expect: "valueTuple"})
	seed(Seed{Name: "2pc-identity-in-workspace", Prop: "C05", Rule: "VAL-IDENTITY", File: "distsys/resources/twopc.go",
		Old: "!arg.Sender.Equal(twopc.acceptedPreCommit.Sender)", New: "arg.Sender != twopc.acceptedPreCommit.Sender", Expect: "receiveInternal"})
	seed(Seed{Name: "lww-discarded-set-c05", Prop: "C05", Rule: "PURE-UNUSED", File: "distsys/resources/lww.go",
		Old: "s.remSet = s.remSet.Set(id, otherTimeStamp)\n\t\t\t\tcontinue", New: "s.remSet.Set(id, otherTimeStamp)\n\t\t\t\tcontinue", Expect: "LWWSet.Merge"})

	seed(Seed{Name: "2pc-abort-identity", Prop: "C11", Rule: "VAL-IDENTITY-2PC", File: "distsys/resources/twopc.go",
		Old: "!arg.Sender.Equal(twopc.acceptedPreCommit.Sender)", New: "arg.Sender != twopc.acceptedPreCommit.Sender", Expect: "receiveInternal"})
	seed(Seed{Name: "2pc-precommit-identity", Prop: "C11", Rule: "VAL-IDENTITY-2PC", File: "distsys/resources/twopc.go",
		Old: "twopc.acceptedPreCommit.Value.Equal(arg.Value)", New: "twopc.acceptedPreCommit.Value == arg.Value", Expect: "receiveInternal"})

	seed(Seed{Name: "lww-discarded-set", Prop: "C12", Rule: "PURE-UNUSED", File: "distsys/resources/lww.go",
		Old: "s.remSet = s.remSet.Set(id, otherTimeStamp)\n\t\t\t\tcontinue", New: "s.remSet.Set(id, otherTimeStamp)\n\t\t\t\tcontinue", Expect: "LWWSet.Merge"})
	seed(Seed{Name: "gcounter-merge-discarded", Prop: "C12", Rule: "PURE-UNUSED", File: "distsys/resources/gcounter.go",
		Old: "c = GCounter{c.Set(id, val)}", New: "c.Set(id, val)", Expect: "GCounter.Merge"})
	seed(Seed{Name: "lww-gob-order", Prop: "C12", Rule: "GOB-PAIR", File: "distsys/resources/lww.go",
		Old: "\t\tif err := encoder.Encode(s.remSet.Len()); err != nil {\n\t\t\treturn nil, err\n\t\t}\n", New: "", Expect: "LWWSet"})
}

func init() {
	const sym = "distsys/tla/symbols.go"
	seed(Seed{Name: "less-than-becomes-leq", Prop: "C03", Rule: "OP-RELATION", File: sym,
		Old: "return MakeBool(lhs.AsNumber() < rhs.AsNumber())", New: "return MakeBool(lhs.AsNumber() <= rhs.AsNumber())", Expect: "ModuleLessThanSymbol"})
	seed(Seed{Name: "geq-operands-swapped", Prop: "C03", Rule: "OP-RELATION", File: sym,
		Old: "return MakeBool(lhs.AsNumber() >= rhs.AsNumber())", New: "return MakeBool(rhs.AsNumber() >= lhs.AsNumber())", Expect: "ModuleGreaterThanOrEqualSymbol"})
	seed(Seed{Name: "minus-operands-swapped", Prop: "C03", Rule: "OP-RELATION", File: sym,
		Old: "makeNumberChecked(int64(lhs.AsNumber()) - int64(rhs.AsNumber()))", New: "makeNumberChecked(int64(rhs.AsNumber()) - int64(lhs.AsNumber()))", Expect: "ModuleMinusSymbol"})
	seed(Seed{Name: "dotdot-excludes-upper", Prop: "C03", Rule: "OP-RELATION", File: sym,
		Old: "for i := from; i <= to; i++ {", New: "for i := from; i < to; i++ {", Expect: "ModuleDotDotSymbol"})
	seed(Seed{Name: "doubleat-right-wins", Prop: "C03", Rule: "OVERRIDE-DIR", File: sym,
		Old: "\tit := lhsFn.Iterator()\n\tfor !it.Done() {\n\t\tkey, value, _ := it.Next()\n\t\trhsFn = rhsFn.Set(key, value)\n\t}\n\treturn MakeRecordFromMap(rhsFn)",
		New: "\tit := rhsFn.Iterator()\n\tfor !it.Done() {\n\t\tkey, value, _ := it.Next()\n\t\tlhsFn = lhsFn.Set(key, value)\n\t}\n\treturn MakeRecordFromMap(lhsFn)", Expect: "ModuleDoubleAtSignSymbol"})
	seed(Seed{Name: "except-extends-domain", Prop: "C03", Rule: "GET-OK-USED", File: "distsys/tla/builtins.go",
		Old: "\t\t\t\tval, keyOk := sourceFn.Get(keys[0])\n\t\t\t\trequire(keyOk, \"invalid key during function substitution\")\n", New: "\t\t\t\tval, _ := sourceFn.Get(keys[0])\n", Expect: "FunctionSubstitution"})
	seed(Seed{Name: "apply-zero-based", Prop: "C03", Rule: "INDEX-BASE", File: "distsys/tla/value.go",
		Old: "return data.Get(idx - 1)", New: "return data.Get(idx)", Expect: "ApplyFunction"})
}
