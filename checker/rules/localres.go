package rules

import (
	"go/ast"
	"go/types"

	"pgoverif/checker/an"
	"pgoverif/checker/core"
)

func init() {
	register(&core.Rule{ID: "LOCAL-RES", Props: []string{"C01", "C04", "C18"}, Floor: 8,
		Doc: "local variables (LocalArchetypeResource and its indexed view): a write always stores the (clock-stripped) value - for an indexed write the substituted function into the parent; a write always witnesses the variable's clock and absorbs the written value's clock exactly when it carries one; a read always merges the reader's clock into the variable's clock before wrapping the value with it",
		Run: runLocalRes})
}

func runLocalRes(c *core.Ctx) {
	e := EnvOf(c.Prog)
	t := mustType(c, e, an.PkgDistsys, "LocalArchetypeResource")
	if t == nil {
		return
	}
	valueF, clockF := mustField(c, t, "value"), mustField(c, t, "clock")
	if valueF == nil || clockF == nil {
		return
	}
	always := func(a dtAtoms) bool { return true }
	storeTo := func(f *types.Var) func(*types.Info, ast.Node) bool {
		return func(info *types.Info, n ast.Node) bool { _, ok := fieldIsAssigned(info, n, f); return ok }
	}
	callMethod := func(name string) func(*types.Info, ast.Node) bool {
		return func(info *types.Info, n ast.Node) bool {
			call, ok := n.(*ast.CallExpr)
			if !ok {
				return false
			}
			f := an.CalleeFunc(info, call)
			return f != nil && f.Name() == name
		}
	}
	var rows []dtRow
	for _, ty := range []string{"LocalArchetypeResource", "localArchetypeSubResource"} {
		rows = append(rows,
			dtRow{fn: ty + ".WriteValue", key: "stores-value", why: "a write always takes effect on the variable", find: storeTo(valueF), bools: []string{"valueClock==nil"}, ref: always},
			dtRow{fn: ty + ".WriteValue", key: "witnesses-variable-clock", why: "the writer's clock comes to dominate the variable's previous writers", find: callMethod("WitnessVClock"), bools: []string{"valueClock==nil"}, ref: always},
			dtRow{fn: ty + ".WriteValue", key: "absorbs-value-clock", why: "the variable's clock absorbs the clock travelling with the written value, when there is one", find: storeTo(clockF), bools: []string{"valueClock==nil"},
				ref: func(a dtAtoms) bool { return !a.B("valueClock==nil") }},
			dtRow{fn: ty + ".ReadValue", key: "merges-reader-clock", why: "a value read from the variable carries everything its reader has witnessed so far", find: storeTo(clockF), ref: always},
		)
	}
	runDecisionRows(c, e, an.PkgDistsys, "", rows)
	// reads hand out the value wrapped with the variable's clock; the indexed write substitutes along its own index path
	for _, ty := range []string{"LocalArchetypeResource", "localArchetypeSubResource"} {
		fn := mustMethod(c, e, an.PkgDistsys, ty, "ReadValue")
		if fn == nil {
			continue
		}
		info := fn.Pkg.Info
		wrapped := false
		ast.Inspect(fn.Body(), func(m ast.Node) bool {
			if call, ok := m.(*ast.CallExpr); ok && an.IsFuncNamed(an.CalleeFunc(info, call), an.PkgTLA, "WrapCausal") && len(call.Args) == 2 && an.SelectedField(info, call.Args[1]) == clockF {
				wrapped = true
			}
			return true
		})
		c.Check(wrapped, ty+".ReadValue:wraps-with-variable-clock", fn.Pos(), "the value is returned wrapped with the variable's clock", "a value read from a local variable does not carry the variable's clock: causality is lost at the first hop through a local")
	}
	if fn := mustMethod(c, e, an.PkgDistsys, "localArchetypeSubResource", "WriteValue"); fn != nil {
		info := fn.Pkg.Info
		sub := mustType(c, e, an.PkgDistsys, "localArchetypeSubResource")
		var idxF *types.Var
		if sub != nil {
			idxF = an.Field(sub, "indices")
		}
		keysOK := false
		ast.Inspect(fn.Body(), func(m ast.Node) bool {
			if kv, ok := m.(*ast.KeyValueExpr); ok {
				if id, ok := kv.Key.(*ast.Ident); ok && id.Name == "Keys" && idxF != nil && an.SelectedField(info, kv.Value) == idxF {
					keysOK = true
				}
			}
			return true
		})
		c.Check(keysOK, "localArchetypeSubResource.WriteValue:substitutes-at-own-path", fn.Pos(), "the substitution is applied at the view's index path", "the indexed write does not substitute at res.indices: another element of the function is overwritten")
	}
}
