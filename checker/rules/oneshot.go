package rules

import (
	"fmt"
	"go/ast"
	"go/token"
	"go/types"

	"pgoverif/checker/an"
	"pgoverif/checker/core"
)

func init() {
	register(&core.Rule{ID: "ONESHOT-FRESH", Props: []string{"C13", "C19", "C06", "C07"}, Floor: 4,
		Doc: "a time.After channel fires once: every wait that is bounded by one gets its own - the call is received from directly, stored per element, or held in a local that is used only in the loop iteration that created it; a deadline channel created once and consulted by several waits bounds only the first of them, the others wait for ever",
		Run: runOneshotFresh})
}

func runOneshotFresh(c *core.Ctx) {
	e := EnvOf(c.Prog)
	n := 0
	for _, fn := range e.Ix.Funcs() {
		if fn.Pkg.Path != an.PkgResources && fn.Pkg.Path != an.PkgDistsys {
			continue
		}
		info := fn.Pkg.Info
		if fn.Body() == nil {
			continue
		}
		// parent links and innermost loop of every node
		parent := map[ast.Node]ast.Node{}
		var stack []ast.Node
		ast.Inspect(fn.Body(), func(m ast.Node) bool {
			if m == nil {
				stack = stack[:len(stack)-1]
				return true
			}
			if len(stack) > 0 {
				parent[m] = stack[len(stack)-1]
			}
			stack = append(stack, m)
			return true
		})
		loopOf := func(m ast.Node) ast.Node {
			for p := parent[m]; p != nil; p = parent[p] {
				switch p.(type) {
				case *ast.ForStmt, *ast.RangeStmt:
					return p
				case *ast.FuncLit:
					return p // a literal is its own scope of evaluation
				}
			}
			return nil
		}
		k := 0
		ast.Inspect(fn.Body(), func(m ast.Node) bool {
			call, ok := m.(*ast.CallExpr)
			if !ok {
				return true
			}
			f := an.CalleeFunc(info, call)
			if f == nil || f.Pkg() == nil || f.Pkg().Path() != "time" || f.Name() != "After" || f.Type().(*types.Signature).Recv() != nil {
				return true
			}
			n++
			k++
			key := fmt.Sprintf("%s:deadline#%d-bounds-one-wait", fn.Name(), k)
			// direct receive / per-element store
			p := parent[call]
			for {
				if pe, isParen := p.(*ast.ParenExpr); isParen {
					p = parent[pe]
					continue
				}
				break
			}
			if u, isU := p.(*ast.UnaryExpr); isU && u.Op == token.ARROW {
				c.Ok(key, call.Pos(), "received from directly")
				return true
			}
			var holder types.Object
			switch x := p.(type) {
			case *ast.AssignStmt:
				for i, r := range x.Rhs {
					if an.Unparen(r) == ast.Expr(call) && i < len(x.Lhs) {
						if id, isId := x.Lhs[i].(*ast.Ident); isId {
							holder = info.ObjectOf(id)
						}
					}
				}
			case *ast.ValueSpec:
				for i, r := range x.Values {
					if an.Unparen(r) == ast.Expr(call) && i < len(x.Names) {
						holder = info.ObjectOf(x.Names[i])
					}
				}
			}
			if holder == nil {
				// stored into a field / element / passed on: one channel per evaluation of this expression
				c.Ok(key, call.Pos(), "stored per evaluation")
				return true
			}
			home := loopOf(call)
			var strayUse ast.Node
			ast.Inspect(fn.Body(), func(u ast.Node) bool {
				id, isId := u.(*ast.Ident)
				if !isId || info.Uses[id] != holder {
					return true
				}
				if loopOf(id) != home {
					strayUse = id
				}
				return true
			})
			where := ""
			if strayUse != nil {
				where = fmt.Sprintf(" (line %d)", c.Prog.Fset.Position(strayUse.Pos()).Line)
			}
			c.Check(strayUse == nil, key, call.Pos(), "held in a local used only in the iteration that created it",
				"the time.After channel held in "+holder.Name()+" is created once but consulted inside a loop / closure"+where+": it fires once, so only the first wait is bounded and a later wait on an unresponsive peer blocks for ever (the goroutine - and everything it would have delivered afterwards - is stuck)")
			return true
		})
	}
	if n == 0 {
		c.Lost("time.After calls", "no time.After call found in the runtime")
	}
}
