package rules

import (
	"fmt"
	"go/ast"
	"go/token"
	"go/types"

	"pgoverif/checker/an"
	"pgoverif/checker/core"
)

func init() {
	register(&core.Rule{ID: "CRDT-STABLE", Props: []string{"C13"}, Floor: 4,
		Doc: "every CRDT state sent to a peer (ReceiveValue argument or reply) is the result of getStableValue(), which returns the pre-section snapshot while a section is writing",
		Run: runCRDTStable})
	register(&core.Rule{ID: "CRDT-SNAPSHOT", Props: []string{"C13", "C01"}, Floor: 1,
		Doc: "code outside the section operations that updates the CRDT value (the merger) also updates the snapshot when one exists, so an Abort cannot discard merged peer state",
		Run: runCRDTSnapshot})
	register(&core.Rule{ID: "CRDT-ARM", Props: []string{"C13"}, Floor: 1,
		Doc: "the broadcast budget is (re)armed in Commit for a section that wrote: only then do the writes become the stable state that broadcasts carry",
		Run: runCRDTArm})
	register(&core.Rule{ID: "CRDT-ENQUEUE", Props: []string{"C13"}, Floor: 3,
		Doc: "every CRDT state obtained from a peer (ReceiveValue argument, broadcast reply) is handed to prepMerge, and only the merger drains the merge queue",
		Run: runCRDTEnqueue})
}

type crdtAnchors struct {
	t                                            *types.Named
	value, oldValue, hasOld, count, peers, queue *types.Var
	stateLock                                    *types.Var
}

func crdtOf(c *core.Ctx, e *Env) *crdtAnchors {
	t := mustType(c, e, an.PkgResources, "crdt")
	if t == nil {
		return nil
	}
	a := &crdtAnchors{t: t}
	a.value, a.oldValue, a.hasOld = mustField(c, t, "value"), mustField(c, t, "oldValue"), mustField(c, t, "hasOldValue")
	a.count, a.peers, a.queue = mustField(c, t, "needBroadcastCount"), mustField(c, t, "peerIds"), mustField(c, t, "mergeValues")
	a.stateLock = mustField(c, t, "stateLock")
	if a.value == nil || a.oldValue == nil || a.hasOld == nil || a.count == nil || a.peers == nil || a.queue == nil || a.stateLock == nil {
		return nil
	}
	return a
}

func runCRDTStable(c *core.Ctx) {
	e := EnvOf(c.Prog)
	a := crdtOf(c, e)
	if a == nil {
		return
	}
	stable := mustMethod(c, e, an.PkgResources, "crdt", "getStableValue")
	if stable == nil {
		return
	}
	pk := c.Prog.Pkg(an.PkgResources)
	n := 0
	for _, tn := range []string{"ReceiveValueArgs", "ReceiveValueResp"} {
		t := mustType(c, e, an.PkgResources, tn)
		if t == nil {
			continue
		}
		for _, f := range pk.Files {
			ast.Inspect(f, func(m ast.Node) bool {
				cl, ok := m.(*ast.CompositeLit)
				if !ok {
					return true
				}
				if nt := an.NamedOf(pk.Info.TypeOf(cl)); nt == nil || nt.Obj() != t.Obj() {
					return true
				}
				for _, el := range cl.Elts {
					kv, ok := el.(*ast.KeyValueExpr)
					if !ok {
						continue
					}
					n++
					key := fmt.Sprintf("%s:%s{Value}#%d", enclosingFuncName(pk, f, cl), tn, n)
					call, isCall := an.Unparen(kv.Value).(*ast.CallExpr)
					c.Check(isCall && an.CalleeFunc(pk.Info, call) == stable.Obj, key, kv.Pos(), "the state sent is getStableValue()",
						"a CRDT state is sent to a peer without going through getStableValue(): the uncommitted writes of a section in flight would be broadcast (and could not be taken back if it aborts)")
				}
				return true
			})
		}
	}
	// ... and the Value field of an argument / reply is never (re)assigned from anything else afterwards
	for _, tn := range []string{"ReceiveValueArgs", "ReceiveValueResp"} {
		t := e.Ix.LookupType(an.PkgResources, tn)
		if t == nil {
			continue
		}
		vf := an.Field(t, "Value")
		if vf == nil {
			continue
		}
		for _, f := range pk.Files {
			ast.Inspect(f, func(m ast.Node) bool {
				as, ok := m.(*ast.AssignStmt)
				if !ok {
					return true
				}
				for i, l := range as.Lhs {
					if an.SelectedField(pk.Info, l) != vf {
						continue
					}
					n++
					key := fmt.Sprintf("%s:%s.Value=#%d", enclosingFuncName(pk, f, as), tn, n)
					okv := false
					if len(as.Rhs) == len(as.Lhs) {
						if call, isCall := an.Unparen(as.Rhs[i]).(*ast.CallExpr); isCall && an.CalleeFunc(pk.Info, call) == stable.Obj {
							okv = true
						}
					}
					c.Check(okv, key, as.Pos(), "the state sent is getStableValue()",
						"the Value of a CRDT message is assigned something other than getStableValue(): the uncommitted writes of a section in flight reach a peer and cannot be taken back if the section aborts")
				}
				return true
			})
		}
	}
	if n < 2 {
		c.Lost("ReceiveValue literals", "expected >= 2 ReceiveValueArgs/Resp literals, found %d", n)
	}
	// getStableValue: oldValue iff hasOldValue, under the state lock
	info := stable.Pkg.Info
	isReturn := func(_ *types.Info, n ast.Node) bool { _, ok := n.(*ast.ReturnStmt); return ok }
	runDecisionRows(c, e, an.PkgResources, "", []dtRow{
		{fn: "crdt.getStableValue", key: "snapshot-iff-writing", why: "peers are sent the pre-section snapshot exactly while a section is writing", find: isReturn,
			resultIs: "$.oldValue", bools: []string{"$.hasOldValue"}, ref: func(a dtAtoms) bool { return a.B("$.hasOldValue") }},
		{fn: "crdt.getStableValue", key: "snapshot-iff-writing/else-current", why: "... and the current state otherwise", find: isReturn,
			resultIs: "$.value", bools: []string{"$.hasOldValue"}, ref: func(a dtAtoms) bool { return !a.B("$.hasOldValue") }},
	})
	locked := false
	for _, st := range stable.Body().List {
		if es, ok := st.(*ast.ExprStmt); ok {
			if call, ok := es.X.(*ast.CallExpr); ok {
				if sel, ok := an.Unparen(call.Fun).(*ast.SelectorExpr); ok && (sel.Sel.Name == "RLock" || sel.Sel.Name == "Lock") && an.SelectedField(info, sel.X) == a.stateLock {
					locked = true
				}
			}
		}
	}
	c.Check(locked, "crdt.getStableValue:locked", stable.Pos(), "reads the state under stateLock", "getStableValue reads value/oldValue/hasOldValue without holding stateLock")
}

func runCRDTSnapshot(c *core.Ctx) {
	e := EnvOf(c.Prog)
	a := crdtOf(c, e)
	if a == nil {
		return
	}
	section := map[string]bool{"ReadValue": true, "WriteValue": true, "Abort": true, "Commit": true}
	n := 0
	for _, fn := range e.Ix.MethodsOf(a.t) {
		if section[fn.Obj.Name()] {
			continue
		}
		info := fn.Pkg.Info
		for _, b := range bodiesOf(fn) {
			g := graphOfBody(e, fn.Pkg, fn, b)
			for _, w := range g.FindAtoms(func(x ast.Node) bool { _, ok := fieldIsAssigned(info, x, a.value); return ok }) {
				n++
				key := fmt.Sprintf("crdt.%s:updates-value#%d", fn.Obj.Name(), n)
				ok := false
				for _, cd := range g.CondAtoms(func(ex ast.Expr) bool { return an.SelectedField(info, ex) == a.hasOld }) {
					for _, s := range g.FindAtoms(func(x ast.Node) bool { _, ok := fieldIsAssigned(info, x, a.oldValue); return ok }) {
						if g.GuardedBy(s, cd, true) {
							ok = true
						}
					}
				}
				// ... and what is folded into the snapshot is the received state alone, nothing derived from the working value
				for _, sAtom := range g.FindAtoms(func(x ast.Node) bool { _, ok := fieldIsAssigned(info, x, a.oldValue); return ok }) {
					rhs, _ := fieldIsAssigned(info, sAtom, a.oldValue)
					tainted := false
					var scan func(x ast.Node, depth int)
					scan = func(x ast.Node, depth int) {
						ast.Inspect(x, func(m ast.Node) bool {
							switch y := m.(type) {
							case *ast.SelectorExpr:
								if an.SelectedField(info, y) == a.value {
									tainted = true
								}
							case *ast.Ident:
								if depth < 3 {
									if d := an.SingleDef(info, b.body, info.ObjectOf(y)); d != nil {
										scan(d, depth+1)
									}
								}
							}
							return true
						})
					}
					if rhs != nil {
						scan(rhs, 0)
					}
					c.Check(!tainted, fmt.Sprintf("crdt.%s:snapshot-takes-received-state-only#%d", fn.Obj.Name(), n), sAtom.Pos(), "the snapshot is merged with the received state, not with the working value",
						"what is merged into the snapshot is derived from res.value, the working copy that contains the writes of the section in flight: if that section aborts, Abort restores a snapshot that already contains its writes, and broadcasts of the 'stable' state leak them to peers")
				}
				// ... and it is the very state that is merged into the value: whatever the value absorbs while a section is
				// writing, the snapshot absorbs too
				mergeArg := func(x ast.Node, f *types.Var) types.Object {
					rhs, isStore := fieldIsAssigned(info, x, f)
					if !isStore || rhs == nil {
						return nil
					}
					call, isCall := an.Unparen(rhs).(*ast.CallExpr)
					if !isCall || len(call.Args) != 1 {
						return nil
					}
					if sel, isSel := an.Unparen(call.Fun).(*ast.SelectorExpr); !isSel || sel.Sel.Name != "Merge" || an.SelectedField(info, sel.X) != f {
						return nil
					}
					return an.ObjOf(info, an.ResolveLocal(info, b.body, call.Args[0]))
				}
				if va := mergeArg(w, a.value); va != nil {
					for _, sAtom := range g.FindAtoms(func(x ast.Node) bool { _, ok := fieldIsAssigned(info, x, a.oldValue); return ok }) {
						if sa := mergeArg(sAtom, a.oldValue); sa != nil {
							c.Check(sa == va, fmt.Sprintf("crdt.%s:snapshot-merges-what-the-value-merges#%d", fn.Obj.Name(), n), sAtom.Pos(), "value and snapshot absorb the same received state",
								"the state merged into the snapshot is not the state merged into the value: whatever only the value absorbed is discarded when the writing section aborts, although its sender was told it had been received")
						}
					}
				}
				c.Check(ok, key, w.Pos(), "the snapshot is updated alongside the value while a section is writing",
					"state received from a peer is merged into value only: if it arrives while a local section is writing and that section aborts, Abort restores the old snapshot and the merged peer state is lost for good")
			}
		}
	}
	if n == 0 {
		c.Lost("crdt:non-section-value-update", "no update of crdt.value outside the section operations found (the merger)")
	}
}

func runCRDTArm(c *core.Ctx) {
	e := EnvOf(c.Prog)
	a := crdtOf(c, e)
	if a == nil {
		return
	}
	isArm := func(info *types.Info, x ast.Node) bool {
		rhs, ok := fieldIsAssigned(info, x, a.count)
		if !ok || rhs == nil {
			return false
		}
		call, ok := an.Unparen(rhs).(*ast.CallExpr)
		return ok && an.IsBuiltin(info, call, "len") && len(call.Args) == 1 && an.SelectedField(info, call.Args[0]) == a.peers
	}
	commit := mustMethod(c, e, an.PkgResources, "crdt", "Commit")
	if commit == nil {
		return
	}
	armed := false
	ast.Inspect(commit.Body(), func(m ast.Node) bool {
		if isArm(commit.Pkg.Info, m) {
			armed = true
		}
		return true
	})
	c.Check(armed, "crdt.Commit:arms-broadcast", commit.Pos(), "needBroadcastCount = len(peerIds) in Commit",
		"the broadcast budget is never armed in Commit: broadcast ticks that fall between a write and its commit spend the budget on the old stable state, so the committed update may never reach a peer")
	// ... for every section that wrote, whatever it wrote: the arming depends on one flag only, and that flag is the
	// section's has-written flag as it stood when Commit began (a write that leaves Read() unchanged - an element added
	// again - still changed timestamps / clocks that the peers must learn)
	if armed {
		info := commit.Pkg.Info
		g := e.Graph(commit)
		for i, arm := range g.FindAtoms(func(x ast.Node) bool { return isArm(info, x) }) {
			key := fmt.Sprintf("crdt.Commit:arm#%d-exactly-when-the-section-wrote", i+1)
			// the conditions on the way to the arming: each is the flag, or a single-definition copy of it taken by Commit
			bad := ""
			n := 0
			for _, blk := range g.CFG.Blocks {
				cd, _ := g.Cond(blk)
				if cd == nil {
					continue
				}
				at := g.AtomOf(cd)
				if at == nil {
					at = cd
				}
				onTrue, onFalse := g.GuardedBy(arm, at, true), g.GuardedBy(arm, at, false)
				if !onTrue && !onFalse {
					continue
				}
				n++
				// `if !flag { return }` puts the arming on the false side of the negated flag
				pos := cd
				want := onTrue
				if u, isNot := an.Unparen(cd).(*ast.UnaryExpr); isNot && u.Op == token.NOT {
					pos, want = u.X, onFalse
				}
				cd = pos
				src := an.ResolveLocal(info, commit.Body(), cd)
				if !(want && an.SelectedField(info, src) == a.hasOld) {
					bad = "the arming also depends on `" + an.ExprString(cd) + "`"
					// a copy of the flag that is assigned again is not the flag
					if id, isID := an.Unparen(cd).(*ast.Ident); isID && an.SingleDef(info, commit.Body(), info.ObjectOf(id)) == nil {
						bad = "the arming depends on `" + id.Name + "`, which Commit changes after copying the has-written flag into it"
					}
				}
			}
			if n == 0 {
				bad = "the arming does not depend on whether the section wrote"
			}
			c.Check(bad == "", key, arm.Pos(), "armed exactly when the section wrote (hasOldValue at entry)",
				bad+": a committed write that is not announced never reaches the peers unless a later section happens to broadcast")
		}
	}
	// an acknowledgement uses the budget up only if no section committed since the acknowledged state was read: the
	// decrement in broadcast is on the true side of `res.<epoch> == <local>`, where the local was copied from the field
	// before the stable state was read, and Commit advances the field where it arms the budget. Otherwise the
	// acknowledgements of the OLD state consume the budget a commit has just re-armed, and the new state is never sent.
	if bcFn := mustMethod(c, e, an.PkgResources, "crdt", "broadcast"); bcFn != nil && armed {
		info := bcFn.Pkg.Info
		var stablePos token.Pos
		ast.Inspect(bcFn.Body(), func(m ast.Node) bool {
			if call, ok := m.(*ast.CallExpr); ok && an.IsMethodNamed(an.CalleeFunc(info, call), an.PkgResources, "crdt", "getStableValue") && !stablePos.IsValid() {
				stablePos = call.Pos()
			}
			return true
		})
		var stack []ast.Node
		n := 0
		ast.Inspect(bcFn.Body(), func(m ast.Node) bool {
			if m == nil {
				stack = stack[:len(stack)-1]
				return true
			}
			stack = append(stack, m)
			if _, isDec := fieldIsAssigned(info, m, a.count); !isDec || isArm(info, m) {
				return true
			}
			n++
			key := fmt.Sprintf("crdt.broadcast:ack#%d-counts-only-for-the-state-it-acknowledges", n)
			ok := false
			why := "the decrement is not conditional on an epoch comparison"
			for k := len(stack) - 2; k >= 0 && !ok; k-- {
				ifs, isIf := stack[k].(*ast.IfStmt)
				if !isIf || k+1 >= len(stack) || stack[k+1] != ast.Node(ifs.Body) {
					continue
				}
				be, isBin := an.Unparen(ifs.Cond).(*ast.BinaryExpr)
				if !isBin || be.Op != token.EQL {
					continue
				}
				for _, pair := range [][2]ast.Expr{{be.X, be.Y}, {be.Y, be.X}} {
					f := an.SelectedField(info, pair[0])
					l := an.ObjOf(info, pair[1])
					if f == nil || l == nil || f == a.count {
						continue
					}
					// the local is a copy of the field taken before the state was read, and never assigned otherwise (read
					// through plain copies and the named results of a helper literal)
					src := resolveThroughLiteral(info, bcFn.Body(), pair[1])
					if !(an.SelectedField(info, src) == f && stablePos.IsValid() && src.Pos() < stablePos) {
						why = "the local compared with the epoch is not a single copy of it taken before the stable state is read"
						continue
					}
					// Commit advances the field in the block that arms the budget
					advanced := false
					ast.Inspect(commit.Body(), func(x ast.Node) bool {
						blk, isBlk := x.(*ast.BlockStmt)
						if !isBlk {
							return true
						}
						hasArm, hasAdv := false, false
						for _, st := range blk.List {
							if isArm(commit.Pkg.Info, st) {
								hasArm = true
							}
							if id, isInc := st.(*ast.IncDecStmt); isInc && id.Tok == token.INC && an.SelectedField(commit.Pkg.Info, id.X) == f {
								hasAdv = true
							}
						}
						if hasArm && hasAdv {
							advanced = true
						}
						return true
					})
					if !advanced {
						why = "Commit does not advance " + f.Name() + " where it arms the budget"
						continue
					}
					ok = true
				}
			}
			c.Check(ok, key, m.Pos(), "an acknowledgement counts only if no section committed since the acknowledged state was read",
				why+": the acknowledgements of an older state use up the budget a commit has re-armed meanwhile, and that commit's state is never broadcast")
			return true
		})
		if n == 0 {
			c.Lost("crdt.broadcast:ack-counts", "no decrement of the broadcast budget found in broadcast")
		}
	}
	// wherever else it is armed is informational
	for _, fn := range e.Ix.MethodsOf(a.t) {
		if fn == commit {
			continue
		}
		ast.Inspect(fn.Body(), func(m ast.Node) bool {
			if isArm(fn.Pkg.Info, m) {
				c.Ok("crdt."+fn.Obj.Name()+":also-arms", m.Pos(), "additional arming site (harmless: it can only cause extra broadcasts of the stable state)")
			}
			return true
		})
	}
	// outside broadcast the budget is only ever (re)armed, never lowered: lowering it elsewhere cancels the
	// delivery still owed for an earlier committed section
	for _, fn := range e.Ix.MethodsOf(a.t) {
		if fn.Obj.Name() == "broadcast" {
			continue
		}
		info := fn.Pkg.Info
		ast.Inspect(fn.Body(), func(m ast.Node) bool {
			if _, ok := fieldIsAssigned(info, m, a.count); ok && !isArm(info, m) {
				c.Bad("crdt."+fn.Obj.Name()+":lowers-broadcast-budget", m.Pos(), "needBroadcastCount is assigned something other than len(peerIds) outside broadcast: the budget is shared by all committed sections, so this cancels broadcasts still owed for an earlier commit and that update never reaches the peers")
			}
			if id, ok := m.(*ast.IncDecStmt); ok && an.SelectedField(info, id.X) == a.count {
				c.Bad("crdt."+fn.Obj.Name()+":lowers-broadcast-budget", m.Pos(), "needBroadcastCount is decremented outside broadcast")
			}
			return true
		})
	}
	// the budget is only ever decremented after a successful call
	bc := mustMethod(c, e, an.PkgResources, "crdt", "broadcast")
	if bc != nil {
		info := bc.Pkg.Info
		okDec := true
		found := false
		for _, b := range bodiesOf(bc) {
			ast.Inspect(b.body, func(m ast.Node) bool {
				if _, isLit := m.(*ast.FuncLit); isLit && m != ast.Node(b.lit) {
					return false
				}
				if _, ok := fieldIsAssigned(info, m, a.count); ok {
					found = true
				}
				return true
			})
		}
		_ = okDec
		c.Check(found, "crdt.broadcast:spends-budget", bc.Pos(), "broadcast accounts for delivered states", "broadcast never decrements needBroadcastCount")
	}
}

func runCRDTEnqueue(c *core.Ctx) {
	e := EnvOf(c.Prog)
	a := crdtOf(c, e)
	if a == nil {
		return
	}
	prep := mustMethod(c, e, an.PkgResources, "crdt", "prepMerge")
	recv := mustMethod(c, e, an.PkgResources, "CRDTRPCReceiver", "ReceiveValue")
	bc := mustMethod(c, e, an.PkgResources, "crdt", "broadcast")
	if prep == nil || recv == nil || bc == nil {
		return
	}
	// ReceiveValue: args.Value -> prepMerge
	{
		info := recv.Pkg.Info
		var argsObj types.Object
		if ps := recv.Decl.Type.Params.List; len(ps) > 0 && len(ps[0].Names) > 0 {
			argsObj = info.Defs[ps[0].Names[0]]
		}
		ok := false
		ast.Inspect(recv.Body(), func(m ast.Node) bool {
			if call, isCall := m.(*ast.CallExpr); isCall && an.CalleeFunc(info, call) == prep.Obj && len(call.Args) == 1 {
				if sel, isSel := an.Unparen(an.ResolveLocal(info, recv.Body(), call.Args[0])).(*ast.SelectorExpr); isSel && an.ObjOf(info, sel.X) == argsObj && sel.Sel.Name == "Value" {
					ok = true
				}
			}
			return true
		})
		c.Check(ok, "CRDTRPCReceiver.ReceiveValue:enqueues-peer-state", recv.Pos(), "args.Value is handed to prepMerge", "the state received from a peer is not handed to prepMerge: it is dropped")
	}
	// broadcast: reply value -> prepMerge on the success arm
	{
		info := bc.Pkg.Info
		ok := false
		ast.Inspect(bc.Body(), func(m ast.Node) bool {
			if call, isCall := m.(*ast.CallExpr); isCall && an.CalleeFunc(info, call) == prep.Obj && len(call.Args) == 1 {
				if sel, isSel := an.Unparen(an.ResolveLocal(info, bc.Body(), call.Args[0])).(*ast.SelectorExpr); isSel && sel.Sel.Name == "Value" {
					ok = true
				}
			}
			return true
		})
		c.Check(ok, "crdt.broadcast:enqueues-reply", bc.Pos(), "the peer's reply state is handed to prepMerge", "the state a peer returns in its broadcast reply is never merged")
	}
	// prepMerge sends on the queue; only merger receives from it
	{
		info := prep.Pkg.Info
		sends := false
		ast.Inspect(prep.Body(), func(m ast.Node) bool {
			if s, ok := m.(*ast.SendStmt); ok && an.SelectedField(info, s.Chan) == a.queue {
				sends = true
			}
			return true
		})
		c.Check(sends, "crdt.prepMerge:queues", prep.Pos(), "prepMerge sends the state to the merge queue", "prepMerge does not put the received state on the merge queue")
	}
	for _, fn := range e.Ix.Funcs() {
		if fn.Pkg.Path != an.PkgResources {
			continue
		}
		info := fn.Pkg.Info
		ast.Inspect(fn.Body(), func(m ast.Node) bool {
			if u, ok := m.(*ast.UnaryExpr); ok && u.Op == token.ARROW && an.SelectedField(info, u.X) == a.queue {
				c.Check(fn.Name() == "resources.crdt.merger", fn.Name()+":drains-merge-queue", u.Pos(), "the merge queue is drained by the merger", "the merge queue is received from outside the merger: queued peer states can be consumed without being merged")
			}
			return true
		})
	}
}
