package rules

import (
	"go/ast"
	"go/token"
	"go/types"

	"pgoverif/checker/an"
	"pgoverif/checker/core"
)

func init() {
	register(&core.Rule{ID: "MB-DECISION", Props: []string{"C06"}, Floor: 5,
		Doc: "decision table of the mailbox receivers and senders: a decoded message is handed to the delivery channel exactly when decoding succeeded; a read takes from the backlog exactly when it is non-empty; the relaxed sender marks the section as having sent exactly after a successful encode and forgets it at commit; the timed connection wrappers read/write through exactly when arming the deadline succeeded",
		Run: runMBDecision})
}

func runMBDecision(c *core.Ctx) {
	e := EnvOf(c.Prog)
	sendOn := func(field string) func(*types.Info, ast.Node) bool {
		return func(info *types.Info, n ast.Node) bool {
			s, ok := n.(*ast.SendStmt)
			if !ok {
				return false
			}
			f := an.SelectedField(info, s.Chan)
			return f != nil && f.Name() == field
		}
	}
	storeFieldConst := func(field string, val bool) func(*types.Info, ast.Node) bool {
		return func(info *types.Info, n ast.Node) bool {
			as, ok := n.(*ast.AssignStmt)
			if !ok || len(as.Lhs) != 1 || len(as.Rhs) != 1 {
				return false
			}
			f := an.SelectedField(info, as.Lhs[0])
			return f != nil && f.Name() == field && isBoolConst(info, as.Rhs[0], val)
		}
	}
	backlogPop := func(info *types.Info, n ast.Node) bool {
		as, ok := n.(*ast.AssignStmt)
		if !ok || len(as.Lhs) != 1 || len(as.Rhs) != 1 {
			return false
		}
		f := an.SelectedField(info, as.Lhs[0])
		if f == nil || f.Name() != "readBacklog" {
			return false
		}
		_, isSlice := an.Unparen(as.Rhs[0]).(*ast.SliceExpr)
		return isSlice
	}
	rows := []dtRow{
		{fn: "relaxedMailboxesLocal.handleConn", key: "delivers-decoded-message", occ: true, why: "every successfully decoded message is delivered (and nothing else)", find: sendOn("msgChannel"),
			bools: []string{"err==nil#1", "err==nil#2"}, ref: func(a dtAtoms) bool { return a.B("err==nil#1") && a.B("err==nil#2") }},
		{fn: "relaxedMailboxesRemote.WriteValue", key: "marks-sent-after-successful-encode", occ: true, why: "the section counts as having sent only when the message went out", find: storeFieldConst("hasSent", true),
			bools: []string{"err==nil#1", "err==nil#2"}, ref: func(a dtAtoms) bool { return a.B("err==nil#1") && a.B("err==nil#2") }},
		{fn: "relaxedMailboxesRemote.WriteValue", key: "encodes-the-message", occ: true, why: "the written value is actually put on the wire once the connection is up", find: func(info *types.Info, n ast.Node) bool {
			call, ok := n.(*ast.CallExpr)
			if !ok || len(call.Args) != 1 {
				return false
			}
			f := an.CalleeFunc(info, call)
			if f == nil || f.Name() != "Encode" {
				return false
			}
			u, ok := an.Unparen(call.Args[0]).(*ast.UnaryExpr)
			return ok && u.Op == token.AND
		}, bools: []string{"err==nil#1", "err==nil#2"}, ref: func(a dtAtoms) bool { return a.B("err==nil#1") }},
		{fn: "readWriterConnTimeout.Write", key: "writes-through", occ: true, why: "the timed writer writes the data to the connection exactly when arming the deadline succeeded", find: func(info *types.Info, n ast.Node) bool {
			call, ok := n.(*ast.CallExpr)
			if !ok {
				return false
			}
			f := an.CalleeFunc(info, call)
			return f != nil && f.Name() == "Write" && len(call.Args) == 1
		}, bools: []string{"deadlineErr==nil#1", "deadlineErr==nil#2"}, ref: func(a dtAtoms) bool { return a.B("deadlineErr==nil#1") }},
		{fn: "readWriterConnTimeout.Read", key: "reads-through", occ: true, why: "the timed reader reads from the connection exactly when arming the deadline succeeded", find: func(info *types.Info, n ast.Node) bool {
			call, ok := n.(*ast.CallExpr)
			if !ok {
				return false
			}
			f := an.CalleeFunc(info, call)
			return f != nil && f.Name() == "Read" && len(call.Args) == 1
		}, bools: []string{"deadlineErr==nil#1", "deadlineErr==nil#2"}, ref: func(a dtAtoms) bool { return a.B("deadlineErr==nil#1") }},
		{fn: "relaxedMailboxesRemote.Commit", key: "forgets-sent", why: "the next section starts unsent", find: storeFieldConst("hasSent", false), ref: func(a dtAtoms) bool { return true }},
		{fn: "relaxedMailboxesLocal.ReadValue", key: "backlog-first", why: "redelivered messages are served before new ones", find: backlogPop, ints: map[string]string{"len($.readBacklog)": ""},
			ref: func(a dtAtoms) bool { return a.I("len($.readBacklog)") > 0 }},
		{fn: "tcpMailboxesLocal.ReadValue", key: "backlog-first", why: "redelivered messages are served before new ones", find: backlogPop, ints: map[string]string{"len($.readBacklog)": ""},
			ref: func(a dtAtoms) bool { return a.I("len($.readBacklog)") > 0 }},
	}
	// the TCP receiver's publish / exchange rows are decided by MB-PUBLISH and MB-TAGS on its tag switch
	runDecisionRows(c, e, an.PkgResources, "", rows)
}
