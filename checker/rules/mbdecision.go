package rules

import (
	"go/ast"
	"go/token"
	"go/types"

	"golang.org/x/tools/go/cfg"

	"pgoverif/checker/an"
	"pgoverif/checker/core"
)

func init() {
	register(&core.Rule{ID: "MB-DECISION", Props: []string{"C06"}, Floor: 5,
		Doc: "decision table of the mailbox receivers and senders: a decoded message is handed to the delivery channel exactly when decoding succeeded; a read takes from the backlog exactly when it is non-empty; the relaxed sender marks the section as having sent exactly after a successful encode and forgets it at commit; the timed connection wrappers read/write through exactly when arming the deadline succeeded",
		Run: runMBDecision})
}

func runMBDecision(c *core.Ctx) {
	e := EnvOf(c.Prog)
	sendOn := func(field string) func(*types.Info, ast.Node) bool {
		return func(info *types.Info, n ast.Node) bool {
			s, ok := n.(*ast.SendStmt)
			if !ok {
				return false
			}
			f := an.SelectedField(info, s.Chan)
			return f != nil && f.Name() == field
		}
	}
	storeFieldConst := func(field string, val bool) func(*types.Info, ast.Node) bool {
		return func(info *types.Info, n ast.Node) bool {
			as, ok := n.(*ast.AssignStmt)
			if !ok || len(as.Lhs) != 1 || len(as.Rhs) != 1 {
				return false
			}
			f := an.SelectedField(info, as.Lhs[0])
			return f != nil && f.Name() == field && isBoolConst(info, as.Rhs[0], val)
		}
	}
	backlogPop := func(info *types.Info, n ast.Node) bool {
		as, ok := n.(*ast.AssignStmt)
		if !ok || len(as.Lhs) != 1 || len(as.Rhs) != 1 {
			return false
		}
		f := an.SelectedField(info, as.Lhs[0])
		if f == nil || f.Name() != "readBacklog" {
			return false
		}
		_, isSlice := an.Unparen(as.Rhs[0]).(*ast.SliceExpr)
		return isSlice
	}
	rows := []dtRow{
		{fn: "relaxedMailboxesRemote.WriteValue", key: "marks-sent-after-successful-encode", occ: true, why: "the section counts as having sent only when the message went out", find: storeFieldConst("hasSent", true),
			bools: []string{"err==nil#1", "err==nil#2"}, ref: func(a dtAtoms) bool { return a.B("err==nil#1") && a.B("err==nil#2") }},
		{fn: "relaxedMailboxesRemote.WriteValue", key: "encodes-the-message", occ: true, why: "the written value is actually put on the wire once the connection is up", find: func(info *types.Info, n ast.Node) bool {
			call, ok := n.(*ast.CallExpr)
			if !ok || len(call.Args) != 1 {
				return false
			}
			f := an.CalleeFunc(info, call)
			if f == nil || f.Name() != "Encode" {
				return false
			}
			u, ok := an.Unparen(call.Args[0]).(*ast.UnaryExpr)
			return ok && u.Op == token.AND
		}, bools: []string{"err==nil#1", "err==nil#2"}, ref: func(a dtAtoms) bool { return a.B("err==nil#1") }},
		{fn: "readWriterConnTimeout.Write", key: "writes-through", occ: true, why: "the timed writer writes the data to the connection exactly when arming the deadline succeeded", find: func(info *types.Info, n ast.Node) bool {
			call, ok := n.(*ast.CallExpr)
			if !ok {
				return false
			}
			f := an.CalleeFunc(info, call)
			return f != nil && f.Name() == "Write" && len(call.Args) == 1
		}, bools: []string{"deadlineErr==nil#1", "deadlineErr==nil#2"}, ref: func(a dtAtoms) bool { return a.B("deadlineErr==nil#1") }},
		{fn: "readWriterConnTimeout.Read", key: "reads-through", occ: true, why: "the timed reader reads from the connection exactly when arming the deadline succeeded", find: func(info *types.Info, n ast.Node) bool {
			call, ok := n.(*ast.CallExpr)
			if !ok {
				return false
			}
			f := an.CalleeFunc(info, call)
			return f != nil && f.Name() == "Read" && len(call.Args) == 1
		}, bools: []string{"deadlineErr==nil#1", "deadlineErr==nil#2"}, ref: func(a dtAtoms) bool { return a.B("deadlineErr==nil#1") }},
		{fn: "relaxedMailboxesRemote.Commit", key: "forgets-sent", why: "the next section starts unsent", find: storeFieldConst("hasSent", false), ref: func(a dtAtoms) bool { return true }},
		{fn: "relaxedMailboxesLocal.ReadValue", key: "backlog-first", why: "redelivered messages are served before new ones", find: backlogPop, ints: map[string]string{"len($.readBacklog)": ""},
			ref: func(a dtAtoms) bool { return a.I("len($.readBacklog)") > 0 }},
		{fn: "tcpMailboxesLocal.ReadValue", key: "backlog-first", why: "redelivered messages are served before new ones", find: backlogPop, ints: map[string]string{"len($.readBacklog)": ""},
			ref: func(a dtAtoms) bool { return a.I("len($.readBacklog)") > 0 }},
	}
	// the TCP receiver's publish / exchange rows are decided by MB-PUBLISH and MB-TAGS on its tag switch
	runDecisionRows(c, e, an.PkgResources, "", rows)
	relaxedDelivers(c, e, sendOn("msgChannel"))
}

// relaxedDelivers: in relaxedMailboxesLocal.handleConn, a message is handed to the delivery channel exactly when the
// decode that produced it succeeded. Path formulation (indifferent to where the error of the previous round is examined,
// and to how often it is tested): R = the atoms at which the decode result arrives (`err = <-errCh`, `err := dec.Decode(..)`);
// every path from the entry to a delivery crosses an R; from an R no path reaches a delivery without taking the nil
// outcome of a test of that error; and from an R, following only nil outcomes, every path delivers before the next R /
// the end of the function.
func relaxedDelivers(c *core.Ctx, e *Env, isSend func(*types.Info, ast.Node) bool) {
	key := "relaxedMailboxesLocal.handleConn:delivers-decoded-message"
	fn := e.Ix.LookupMethod(an.PkgResources, "relaxedMailboxesLocal", "handleConn")
	if fn == nil || fn.Body() == nil {
		c.Lost(key, "relaxedMailboxesLocal.handleConn not found")
		return
	}
	info := fn.Pkg.Info
	g := e.Graph(fn)
	errT := types.Universe.Lookup("error").Type()
	var errObj types.Object
	results := g.FindAtoms(func(a ast.Node) bool {
		as, ok := a.(*ast.AssignStmt)
		if !ok || len(as.Lhs) != 1 || len(as.Rhs) != 1 {
			return false
		}
		o := an.ObjOf(info, as.Lhs[0])
		if o == nil || !types.Identical(o.Type(), errT) {
			return false
		}
		switch r := an.Unparen(as.Rhs[0]).(type) {
		case *ast.UnaryExpr:
			if r.Op != token.ARROW {
				return false
			}
		case *ast.CallExpr:
			if f := an.CalleeFunc(info, r); f == nil || f.Name() != "Decode" {
				return false
			}
		default:
			return false
		}
		errObj = o
		return true
	})
	sends := g.FindAtoms(func(a ast.Node) bool { return isSend(info, a) })
	if len(results) == 0 || len(sends) == 0 || errObj == nil {
		c.Lost(key, "no decode result / delivery found in handleConn")
		return
	}
	isResult := func(x ast.Node) bool {
		for _, r := range results {
			if r == x {
				return true
			}
		}
		return false
	}
	isDelivery := func(x ast.Node) bool {
		for _, s := range sends {
			if s == x {
				return true
			}
		}
		return false
	}
	nilLeaf := func(want bool) func(ex ast.Expr, val bool) bool {
		return func(ex ast.Expr, val bool) bool {
			be, ok := an.Unparen(ex).(*ast.BinaryExpr)
			if !ok || (be.Op != token.EQL && be.Op != token.NEQ) {
				return false
			}
			x, y := an.Unparen(be.X), an.Unparen(be.Y)
			if id, isId := x.(*ast.Ident); isId && id.Name == "nil" {
				x, y = y, x
			}
			if id, isId := y.(*ast.Ident); !isId || id.Name != "nil" || an.ObjOf(info, x) != errObj {
				return false
			}
			isNil := (be.Op == token.EQL) == val
			return isNil == want
		}
	}
	// edges on which the error is known to be nil / non-nil
	known := func(want bool) func(from *cfg.Block, i int) bool {
		return func(from *cfg.Block, i int) bool {
			cd, _ := g.Cond(from)
			if cd == nil || len(from.Succs) != 2 {
				return false
			}
			return an.Implies(cd, i == 0, nilLeaf(want))
		}
	}
	knownNil, knownNonNil := known(true), known(false)
	if p := g.Search(an.Query{Target: isDelivery, Avoid: isResult}); p.Found {
		c.Bad(key, p.Target.Pos(), "a message can be delivered on a path that never received a decode result")
		return
	}
	for _, r := range results {
		if p := g.Search(an.Query{From: r, Target: isDelivery, Avoid: isResult, Edges: func(from *cfg.Block, i int) bool { return !knownNil(from, i) }}); p.Found {
			c.Bad(key, p.Target.Pos(), "a message is delivered although the decode that produced it may have failed (no nil test of its error on the way): garbage, or the previous message again, reaches the reader")
			return
		}
		if p := g.Search(an.Query{From: r, Target: isResult, ToExit: true, Avoid: isDelivery, Edges: func(from *cfg.Block, i int) bool { return !knownNonNil(from, i) }, Feasible: true}); p.Found {
			// a path on which the error was never found non-nil and yet nothing was delivered: legitimate only if the
			// path never found it nil either and ... there is no such legitimate path: an untested error is the first case
			if !leavesOnShutdown(g, info, p) {
				c.Bad(key, r.Pos(), "a successfully decoded message can be dropped: some path from the decode result, on which its error was not found to be non-nil, reaches the next round or the end of the function without delivering it")
				return
			}
		}
	}
	c.Ok(key, sends[0].Pos(), "every delivery follows a decode whose error was found nil, and every such decode is followed by a delivery")
}

// leavesOnShutdown: the witness path ends the function (no further decode result) - the receiver is shutting down.
func leavesOnShutdown(g *an.Graph, info *types.Info, p an.Path) bool {
	return p.Target == nil
}
