package rules

import (
	"go/ast"
	"go/types"

	"pgoverif/checker/an"
	"pgoverif/checker/core"
)

func init() {
	register(&core.Rule{ID: "CRDT-DIAL", Props: []string{"C13"}, Floor: 1,
		Doc: "every peer that is not connected is dialled on every broadcast round: in crdt.tryConnectPeers the dial of a peer happens exactly when the peer is not this node and has no connection yet - it depends on nothing else, in particular not on what happened to another peer (a back-off shared by all peers lets one unreachable peer keep a reachable one from ever being dialled, and that peer never receives a committed update)",
		Run: func(c *core.Ctx) {
			e := EnvOf(c.Prog)
			rows := []dtRow{{fn: "crdt.tryConnectPeers", key: "dials-every-unconnected-peer", why: "a peer is dialled exactly when it is another node and not connected yet",
				find: func(info *types.Info, n ast.Node) bool {
					call, ok := n.(*ast.CallExpr)
					if !ok {
						return false
					}
					f := an.CalleeFunc(info, call)
					return f != nil && f.Pkg() != nil && f.Pkg().Path() == "net" && (f.Name() == "DialTimeout" || f.Name() == "Dial")
				},
				bools: []string{"Equal($.id,id)", "ok"}, ref: func(a dtAtoms) bool { return !a.B("Equal($.id,id)") && !a.B("ok") }}}
			runDecisionRows(c, e, an.PkgResources, "crdt", rows)
		}})
}
