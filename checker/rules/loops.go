package rules

import (
	"go/ast"
	"go/constant"
	"go/token"
	"go/types"

	"pgoverif/checker/an"
)

// perElementLoop recognises the loops that run their body exactly once per element of a collection-valued expression X
// for which isX holds, as long as the body neither leaves the loop early nor touches the counter:
//
//	for ... := range X          for range len(X)
//	for i := 0; i < len(X); i++ (also i != len(X), len(X) > i)
//	for n := len(X); n > 0; n-- (also n != 0, 0 < n)
//	for i := len(X) - 1; i >= 0; i--
//
// It returns the body and the collection expression. The caller decides what "leaves early" means for its rule; here only
// the shape of the header and the counter's integrity are checked.
func perElementLoop(info *types.Info, s ast.Stmt, isX func(ast.Expr) bool) (body *ast.BlockStmt, x ast.Expr, ok bool) {
	lenOf := func(e ast.Expr) ast.Expr {
		call, isCall := an.Unparen(e).(*ast.CallExpr)
		if isCall && an.IsBuiltin(info, call, "len") && len(call.Args) == 1 && isX(call.Args[0]) {
			return call.Args[0]
		}
		return nil
	}
	isConst := func(e ast.Expr, k int64) bool {
		tv, has := info.Types[e]
		if !has || tv.Value == nil {
			return false
		}
		v, exact := constant.Int64Val(constant.ToInt(tv.Value))
		return exact && v == k
	}
	switch l := s.(type) {
	case *ast.RangeStmt:
		if isX(l.X) {
			return l.Body, l.X, true
		}
		if col := lenOf(l.X); col != nil {
			return l.Body, col, true
		}
	case *ast.ForStmt:
		init, isAs := l.Init.(*ast.AssignStmt)
		post, isInc := l.Post.(*ast.IncDecStmt)
		cond, isBin := an.Unparen(l.Cond).(*ast.BinaryExpr)
		if !isAs || !isInc || !isBin || init.Tok != token.DEFINE || len(init.Lhs) != 1 || len(init.Rhs) != 1 {
			return nil, nil, false
		}
		ctr := an.ObjOf(info, init.Lhs[0])
		if ctr == nil || an.ObjOf(info, post.X) != ctr {
			return nil, nil, false
		}
		isCtr := func(e ast.Expr) bool {
			id, isId := an.Unparen(e).(*ast.Ident)
			return isId && info.ObjectOf(id) == ctr
		}
		// the counter is written by the header only
		clean := true
		ast.Inspect(l.Body, func(m ast.Node) bool {
			switch w := m.(type) {
			case *ast.AssignStmt:
				for _, lhs := range w.Lhs {
					if isCtr(lhs) {
						clean = false
					}
				}
			case *ast.IncDecStmt:
				if isCtr(w.X) {
					clean = false
				}
			case *ast.UnaryExpr:
				if w.Op == token.AND && isCtr(w.X) {
					clean = false
				}
			}
			return clean
		})
		if !clean {
			return nil, nil, false
		}
		// normalise the condition to `ctr OP other`
		op, other := cond.Op, cond.Y
		if !isCtr(cond.X) {
			if !isCtr(cond.Y) {
				return nil, nil, false
			}
			other = cond.X
			switch op {
			case token.LSS:
				op = token.GTR
			case token.GTR:
				op = token.LSS
			case token.LEQ:
				op = token.GEQ
			case token.GEQ:
				op = token.LEQ
			}
		}
		switch {
		case post.Tok == token.INC && isConst(init.Rhs[0], 0) && (op == token.LSS || op == token.NEQ):
			if col := lenOf(other); col != nil {
				return l.Body, col, true
			}
		case post.Tok == token.DEC && (op == token.GTR || op == token.NEQ) && isConst(other, 0):
			if col := lenOf(init.Rhs[0]); col != nil {
				return l.Body, col, true
			}
		case post.Tok == token.DEC && op == token.GEQ && isConst(other, 0):
			if sub, isSub := an.Unparen(init.Rhs[0]).(*ast.BinaryExpr); isSub && sub.Op == token.SUB && isConst(sub.Y, 1) {
				if col := lenOf(sub.X); col != nil {
					return l.Body, col, true
				}
			}
		}
	}
	return nil, nil, false
}

// containsOutsideLiterals: x is a node of a, not inside a function literal of a.
func containsOutsideLiterals(a, x ast.Node) bool {
	found := false
	ast.Inspect(a, func(m ast.Node) bool {
		if m == x {
			found = true
		}
		if _, isLit := m.(*ast.FuncLit); isLit {
			return false
		}
		return !found
	})
	return found
}

// lenTest: ex compares len(X), for a collection X accepted by isX, with zero (or `>= 1` / `< 1`), possibly negated;
// nonEmptyWhenTrue tells which outcome means the collection has elements.
func lenTest(info *types.Info, ex ast.Expr, isX func(ast.Expr) bool) (ok, nonEmptyWhenTrue bool) {
	neg := false
	for {
		ex = an.Unparen(ex)
		u, isU := ex.(*ast.UnaryExpr)
		if !isU || u.Op != token.NOT {
			break
		}
		neg = !neg
		ex = u.X
	}
	be, isB := ex.(*ast.BinaryExpr)
	if !isB {
		return false, false
	}
	isLen := func(x ast.Expr) bool {
		call, isCall := an.Unparen(x).(*ast.CallExpr)
		return isCall && an.IsBuiltin(info, call, "len") && len(call.Args) == 1 && isX(call.Args[0])
	}
	constOf := func(x ast.Expr) (int64, bool) {
		tv, has := info.Types[x]
		if !has || tv.Value == nil {
			return 0, false
		}
		return constant.Int64Val(constant.ToInt(tv.Value))
	}
	op, k := be.Op, int64(0)
	switch {
	case isLen(be.X):
		v, isC := constOf(be.Y)
		if !isC {
			return false, false
		}
		k = v
	case isLen(be.Y):
		v, isC := constOf(be.X)
		if !isC {
			return false, false
		}
		k = v
		switch op {
		case token.LSS:
			op = token.GTR
		case token.GTR:
			op = token.LSS
		case token.LEQ:
			op = token.GEQ
		case token.GEQ:
			op = token.LEQ
		}
	default:
		return false, false
	}
	// now: len(X) op k
	var when bool
	switch {
	case k == 0 && (op == token.NEQ || op == token.GTR):
		when = true
	case k == 0 && (op == token.EQL || op == token.LEQ):
		when = false
	case k == 1 && op == token.GEQ:
		when = true
	case k == 1 && op == token.LSS:
		when = false
	default:
		return false, false
	}
	return true, when != neg
}

// leafOutcome: a sub-condition and the value it is known to have.
type leafOutcome struct {
	leaf ast.Expr
	val  bool
}

// impliedLeaves lists the sub-conditions whose value follows from condition ex having the given outcome:
// `A && B` true gives A, B true; `A || B` false gives A, B false; `!A` flips; anything else is a leaf.
func impliedLeaves(ex ast.Expr, outcome bool) []leafOutcome {
	ex = an.Unparen(ex)
	switch x := ex.(type) {
	case *ast.UnaryExpr:
		if x.Op == token.NOT {
			return impliedLeaves(x.X, !outcome)
		}
	case *ast.BinaryExpr:
		if (x.Op == token.LAND && outcome) || (x.Op == token.LOR && !outcome) {
			return append(impliedLeaves(x.X, outcome), impliedLeaves(x.Y, outcome)...)
		}
		if x.Op == token.LAND || x.Op == token.LOR {
			return nil
		}
	}
	return []leafOutcome{{ex, outcome}}
}

// guardedByLeaf: node n runs only on a branch of some condition of g whose outcome implies a sub-condition accepted by
// match with the value match asks for.
func guardedByLeaf(g *an.Graph, n ast.Node, match func(leaf ast.Expr) (ok, wantTrue bool)) bool {
	for _, cd := range g.CondAtoms(func(ast.Expr) bool { return true }) {
		for _, outcome := range []bool{true, false} {
			hit := false
			for _, lo := range impliedLeaves(cd.(ast.Expr), outcome) {
				if ok, want := match(lo.leaf); ok && want == lo.val {
					hit = true
				}
			}
			if hit && g.GuardedBy(n, cd, outcome) {
				return true
			}
		}
	}
	return false
}

// flowsFrom: identifier expression x, read at atom `at`, holds the value variable src has after statement `after`
// completed: x is src itself, or a variable all of whose assignments are plain copies of variables that flow from src,
// one of which lies behind `after` (outside it, dominated by its entry) and dominates `at`.
func flowsFrom(g *an.Graph, info *types.Info, body ast.Node, x ast.Expr, at ast.Node, src types.Object, after ast.Node, depth int) bool {
	id, isId := an.Unparen(x).(*ast.Ident)
	if !isId || src == nil || depth > 4 {
		return false
	}
	o := info.ObjectOf(id)
	if o == src {
		return true
	}
	if o == nil {
		return false
	}
	copies, other := 0, false
	dominating := false
	ast.Inspect(body, func(n ast.Node) bool {
		switch s := n.(type) {
		case *ast.FuncLit:
			ast.Inspect(s, func(m ast.Node) bool {
				if mid, ok := m.(*ast.Ident); ok && info.ObjectOf(mid) == o {
					other = true
				}
				return true
			})
			return false
		case *ast.AssignStmt:
			for i, l := range s.Lhs {
				lid, ok := an.Unparen(l).(*ast.Ident)
				if !ok || info.ObjectOf(lid) != o {
					continue
				}
				if len(s.Rhs) != len(s.Lhs) || (s.Tok != token.ASSIGN && s.Tok != token.DEFINE) {
					other = true
					continue
				}
				if !flowsFrom(g, info, body, s.Rhs[i], s, src, after, depth+1) {
					other = true
					continue
				}
				copies++
				outside := after == nil || s.Pos() >= after.End() || s.End() <= after.Pos()
				behind := after == nil || g.Dominates(after, s) || s.Pos() >= after.End()
				if outside && behind && (at == nil || g.Dominates(s, at)) {
					dominating = true
				}
			}
		case *ast.ValueSpec:
			for i, nm := range s.Names {
				if info.Defs[nm] != o {
					continue
				}
				if len(s.Values) == 0 {
					continue // zero value, overwritten by the dominating copy
				}
				if len(s.Values) != len(s.Names) || !flowsFrom(g, info, body, s.Values[i], nil, src, after, depth+1) {
					other = true
					continue
				}
				copies++
			}
		case *ast.IncDecStmt:
			if lid, ok := an.Unparen(s.X).(*ast.Ident); ok && info.ObjectOf(lid) == o {
				other = true
			}
		case *ast.UnaryExpr:
			if s.Op == token.AND {
				if lid, ok := an.Unparen(s.X).(*ast.Ident); ok && info.ObjectOf(lid) == o {
					other = true
				}
			}
		case *ast.RangeStmt:
			for _, l := range []ast.Expr{s.Key, s.Value} {
				if lid, ok := l.(*ast.Ident); ok && info.ObjectOf(lid) == o {
					other = true
				}
			}
		}
		return true
	})
	return copies > 0 && !other && dominating
}

// isLoopElement: inside the body of per-element loop `loop` over collection x, expression e denotes the current element:
// the range value variable, or x[k] (x a readsField-style repeat of the collection expression, compared textually)
// with k the range key / loop counter.
func isLoopElement(info *types.Info, loop ast.Stmt, x ast.Expr, e ast.Expr) bool {
	e = an.Unparen(e)
	var key, val types.Object
	switch l := loop.(type) {
	case *ast.RangeStmt:
		if l.Key != nil {
			key = an.ObjOf(info, l.Key)
		}
		if l.Value != nil {
			val = an.ObjOf(info, l.Value)
		}
	case *ast.ForStmt:
		if init, ok := l.Init.(*ast.AssignStmt); ok && len(init.Lhs) == 1 {
			key = an.ObjOf(info, init.Lhs[0])
			// a counter that runs down from len(x) is not an index
			if post, isInc := l.Post.(*ast.IncDecStmt); isInc && post.Tok == token.DEC {
				if call, isCall := an.Unparen(init.Rhs[0]).(*ast.CallExpr); isCall && an.IsBuiltin(info, call, "len") {
					key = nil
				}
			}
		}
	}
	if id, ok := e.(*ast.Ident); ok {
		o := info.ObjectOf(id)
		if o != nil && o == val {
			return true
		}
		// a local of the body defined as the element
		if body := loopBodyOf(loop); body != nil && o != nil {
			if d := an.SingleDef(info, body, o); d != nil {
				return isLoopElement(info, loop, x, d)
			}
		}
		return false
	}
	if ix, ok := e.(*ast.IndexExpr); ok && key != nil && an.ObjOf(info, ix.Index) == key {
		return an.ExprString(an.Unparen(ix.X)) == an.ExprString(an.Unparen(x))
	}
	return false
}

func loopBodyOf(loop ast.Stmt) *ast.BlockStmt {
	switch l := loop.(type) {
	case *ast.RangeStmt:
		return l.Body
	case *ast.ForStmt:
		return l.Body
	}
	return nil
}

// withLocalDefs returns e and, transitively, the defining expressions of the single-definition locals e mentions
// (`n := int32(len(xs)); return f(n)` reads len(xs) where n is defined).
func withLocalDefs(info *types.Info, body ast.Node, e ast.Expr) []ast.Expr {
	out := []ast.Expr{e}
	seen := map[types.Object]bool{}
	for i := 0; i < len(out) && i < 16; i++ {
		ast.Inspect(out[i], func(m ast.Node) bool {
			if _, isLit := m.(*ast.FuncLit); isLit {
				return false
			}
			if id, ok := m.(*ast.Ident); ok {
				if o, isVar := info.Uses[id].(*types.Var); isVar && !o.IsField() && !seen[o] {
					seen[o] = true
					if d := an.SingleDef(info, body, o); d != nil {
						out = append(out, d)
					}
				}
			}
			return true
		})
	}
	return out
}

// loopIsForward: the per-element loop visits the elements in index order (a range, or a counter that counts up).
func loopIsForward(loop ast.Stmt) bool {
	switch l := loop.(type) {
	case *ast.RangeStmt:
		return true
	case *ast.ForStmt:
		post, ok := l.Post.(*ast.IncDecStmt)
		return ok && post.Tok == token.INC
	}
	return false
}

// guardsEntail: the conditions under which atom n runs (every branch outcome that guards it) entail goal. classify maps
// a sub-condition to a named propositional variable and a polarity; sub-conditions it does not know are free variables.
// The check enumerates the assignments of the variables: whenever all guards have the outcome that leads to n, goal holds.
// At least one guard must mention a classified variable.
func guardsEntail(g *an.Graph, n ast.Node, classify func(leaf ast.Expr) (name string, positive, ok bool), goal func(val map[string]bool) bool) bool {
	type guard struct {
		cond    ast.Expr
		outcome bool
	}
	var guards []guard
	for _, cd := range g.CondAtoms(func(ast.Expr) bool { return true }) {
		for _, outcome := range []bool{true, false} {
			if g.GuardedBy(n, cd, outcome) {
				guards = append(guards, guard{cd.(ast.Expr), outcome})
			}
		}
	}
	vars := map[string]bool{}
	var names []string
	known := false
	var collect func(e ast.Expr)
	leafName := func(e ast.Expr) (string, bool) {
		if name, pos, ok := classify(e); ok {
			known = true
			return name, pos
		}
		return "?" + an.ExprString(e), true
	}
	collect = func(e ast.Expr) {
		e = an.Unparen(e)
		switch x := e.(type) {
		case *ast.UnaryExpr:
			if x.Op == token.NOT {
				collect(x.X)
				return
			}
		case *ast.BinaryExpr:
			if x.Op == token.LAND || x.Op == token.LOR {
				collect(x.X)
				collect(x.Y)
				return
			}
		}
		name, _ := leafName(e)
		if !vars[name] {
			vars[name] = true
			names = append(names, name)
		}
	}
	for _, gd := range guards {
		collect(gd.cond)
	}
	if !known || len(names) > 10 {
		return false
	}
	var eval func(e ast.Expr, val map[string]bool) bool
	eval = func(e ast.Expr, val map[string]bool) bool {
		e = an.Unparen(e)
		switch x := e.(type) {
		case *ast.UnaryExpr:
			if x.Op == token.NOT {
				return !eval(x.X, val)
			}
		case *ast.BinaryExpr:
			if x.Op == token.LAND {
				return eval(x.X, val) && eval(x.Y, val)
			}
			if x.Op == token.LOR {
				return eval(x.X, val) || eval(x.Y, val)
			}
		}
		name, pos := leafName(e)
		return val[name] == pos
	}
	for mask := 0; mask < 1<<len(names); mask++ {
		val := map[string]bool{}
		for i, nm := range names {
			val[nm] = mask&(1<<i) != 0
		}
		all := true
		for _, gd := range guards {
			if eval(gd.cond, val) != gd.outcome {
				all = false
				break
			}
		}
		if all && !goal(val) {
			return false
		}
	}
	return true
}
