package rules

import (
	"go/ast"
	"go/token"
	"go/types"
	"strings"

	"pgoverif/checker/an"
	"pgoverif/checker/core"
)

func init() {
	register(&core.Rule{ID: "CRDT-DECISION", Props: []string{"C12", "C13"}, Floor: 15,
		Doc: "decision table of the CRDT value types: a merge stores the other replica's entry exactly when this replica has none or a smaller one (max / later timestamp), the clock comparison's verdict machine (EQ -> GT/LT -> CC), add-wins visibility in AWORSet Read/Merge, last-writer-wins membership in LWWSet, a set write clears the element from the opposite map when it supersedes it",
		Run: runCRDTDecision})
}

func runCRDTDecision(c *core.Ctx) {
	e := EnvOf(c.Prog)
	storeField := func(name string, method string) func(*types.Info, ast.Node) bool {
		return func(info *types.Info, n ast.Node) bool {
			as, ok := n.(*ast.AssignStmt)
			if !ok || len(as.Lhs) != 1 || len(as.Rhs) != 1 {
				return false
			}
			f := an.SelectedField(info, as.Lhs[0])
			if f == nil || f.Name() != name {
				return false
			}
			call, ok := an.Unparen(as.Rhs[0]).(*ast.CallExpr)
			if !ok {
				return false
			}
			sel, ok := an.Unparen(call.Fun).(*ast.SelectorExpr)
			return ok && sel.Sel.Name == method
		}
	}
	storeLocal := func(name string, val string) func(*types.Info, ast.Node) bool {
		return func(info *types.Info, n ast.Node) bool {
			as, ok := n.(*ast.AssignStmt)
			if !ok || len(as.Lhs) != 1 || len(as.Rhs) != 1 || as.Tok != token.ASSIGN {
				return false
			}
			o := an.ObjOf(info, as.Lhs[0])
			if o == nil || o.Name() != name {
				return false
			}
			if val == "" {
				return true
			}
			r := an.ObjOf(info, as.Rhs[0])
			return r != nil && r.Name() == val
		}
	}
	builderSet := func(builder string) func(*types.Info, ast.Node) bool {
		return func(info *types.Info, n ast.Node) bool {
			call, ok := n.(*ast.CallExpr)
			if !ok {
				return false
			}
			sel, ok := an.Unparen(call.Fun).(*ast.SelectorExpr)
			if !ok || sel.Sel.Name != "Set" {
				return false
			}
			o := an.ObjOf(info, sel.X)
			return o != nil && o.Name() == builder
		}
	}
	retBool := func(v bool) func(*types.Info, ast.Node) bool {
		return func(info *types.Info, n ast.Node) bool {
			r, ok := n.(*ast.ReturnStmt)
			return ok && len(r.Results) == 1 && isBoolConst(info, r.Results[0], v)
		}
	}
	K := func(a dtAtoms, name string) int64 { return a.K(name) }
	cmpInts := map[string]string{"res": "", "v1": "", "v2": ""}
	loopCmp := func(a dtAtoms) bool { return a.B("i1.Done()") && a.B("i2.Done()") && !a.B("i.Done()") }
	rows := []dtRow{
		// GCounter
		{fn: "GCounter.Merge", key: "takes-larger", why: "the merged count of a node is the larger of the two", find: func(info *types.Info, n ast.Node) bool {
			as, ok := n.(*ast.AssignStmt)
			if !ok || len(as.Lhs) != 1 || len(as.Rhs) != 1 || as.Tok != token.ASSIGN {
				return false
			}
			_, isLit := an.Unparen(as.Rhs[0]).(*ast.CompositeLit)
			return isLit
		}, bools: []string{"it.Done()", "ok"}, ints: map[string]string{"v": "", "val": ""},
			ref: func(a dtAtoms) bool { return !a.B("it.Done()") && (!a.B("ok") || a.I("v") < a.I("val")) }},
		{fn: "GCounter.Write", key: "absent-counts-zero", why: "a node that has not counted yet starts from zero", find: storeLocal("oldValue", ""), bools: []string{"ok"}, ref: func(a dtAtoms) bool { return !a.B("ok") },
			// ... or the count is read through getOrDefault (which has its own row) on every path
			alts: []dtRow{{find: callsMethodNamed("getOrDefault"), ref: func(a dtAtoms) bool { return true }}}},
		{fn: "GCounter.getOrDefault", key: "absent-reads-zero", why: "an absent component reads 0", find: func(info *types.Info, n ast.Node) bool {
			r, ok := n.(*ast.ReturnStmt)
			if !ok || len(r.Results) != 1 {
				return false
			}
			tv := info.Types[r.Results[0]]
			return tv.Value != nil && tv.Value.ExactString() == "0"
		}, bools: []string{"ok"}, ref: func(a dtAtoms) bool { return !a.B("ok") }},
		// clock comparison: EQ -> GT / LT -> CC
		{fn: "GCounter.compare", key: "becomes-GT", why: "the first strictly larger component makes the clock greater", find: storeLocal("res", "GT"), bools: []string{"i.Done()", "i1.Done()", "i2.Done()"}, ints: cmpInts,
			ref: func(a dtAtoms) bool { return loopCmp(a) && a.I("res") == K(a, "EQ") && a.I("v1") > a.I("v2") }},
		{fn: "GCounter.compare", key: "becomes-LT", why: "the first strictly smaller component makes the clock less", find: storeLocal("res", "LT"), bools: []string{"i.Done()", "i1.Done()", "i2.Done()"}, ints: cmpInts,
			ref: func(a dtAtoms) bool { return loopCmp(a) && a.I("res") == K(a, "EQ") && a.I("v1") < a.I("v2") }},
		{fn: "GCounter.compare", key: "becomes-CC", why: "a component ordered the other way makes the clocks concurrent", find: storeLocal("res", "CC"), bools: []string{"i.Done()", "i1.Done()", "i2.Done()"}, ints: cmpInts,
			ref: func(a dtAtoms) bool {
				return loopCmp(a) && ((a.I("res") == K(a, "LT") && a.I("v1") > a.I("v2")) || (a.I("res") == K(a, "GT") && a.I("v1") < a.I("v2")))
			}},
		// AWORSet
		{fn: "AWORSet.Read", key: "add-wins-visibility", why: "an element is in the set unless a removal strictly dominates its add", find: func(info *types.Info, n ast.Node) bool {
			as, ok := n.(*ast.AssignStmt)
			if !ok || len(as.Rhs) != 1 {
				return false
			}
			call, ok := an.Unparen(as.Rhs[0]).(*ast.CallExpr)
			return ok && an.IsBuiltin(info, call, "append")
		}, bools: []string{"i.Done()", "remOK"}, ints: map[string]string{"addVC.compare(remVC)": ""},
			ref: func(a dtAtoms) bool {
				return !a.B("i.Done()") && (!a.B("remOK") || a.I("addVC.compare(remVC)") != K(a, "LT"))
			}},
		{fn: "AWORSet.Merge", key: "keeps-add-unless-dominated", occ: true, why: "a merged add survives unless the merged removal strictly dominates it", find: builderSet("addB"),
			bools: []string{"i.Done()#1", "i.Done()#2", "remOk", "addOk"}, ints: map[string]string{"addVC.compare(remVC)#1": "", "addVC.compare(remVC)#2": ""},
			ref: func(a dtAtoms) bool {
				return !a.B("i.Done()#1") && (!a.B("remOk") || a.I("addVC.compare(remVC)#1") != K(a, "LT"))
			}},
		{fn: "AWORSet.Merge", key: "keeps-removal-only-if-dominating", occ: true, why: "a merged removal survives only if there is no add or it strictly dominates the add", find: builderSet("remB"),
			bools: []string{"i.Done()#1", "i.Done()#2", "remOk", "addOk"}, ints: map[string]string{"addVC.compare(remVC)#1": "", "addVC.compare(remVC)#2": ""},
			ref: func(a dtAtoms) bool {
				return a.B("i.Done()#1") && !a.B("i.Done()#2") && (!a.B("addOk") || a.I("addVC.compare(remVC)#2") == K(a, "LT"))
			}},
		{fn: "AWORSet.Write", key: "add-clears-removal", why: "an add that builds on an observed clock supersedes the removal", find: storeField("remMap", "Delete"),
			ints: map[string]string{"cmd.AsNumber()": ""}, bools: []string{"addOk", "remOk"},
			ref: func(a dtAtoms) bool { return a.I("cmd.AsNumber()") == K(a, "addOp") && (a.B("addOk") || a.B("remOk")) }},
		{fn: "AWORSet.Write", key: "remove-clears-add", why: "a removal that builds on an observed clock supersedes the add", find: storeField("addMap", "Delete"),
			ints: map[string]string{"cmd.AsNumber()": ""}, bools: []string{"addOk", "remOk"},
			ref: func(a dtAtoms) bool { return a.I("cmd.AsNumber()") == K(a, "remOp") && (a.B("addOk") || a.B("remOk")) }},
		{fn: ".mergeKeys", key: "merges-common-keys", why: "a key present on both sides gets the merged clock, a key only on the other side is copied", find: accSet,
			when: func(resolve func(ast.Expr) ast.Expr, info *types.Info, n ast.Node) bool {
				_, isCall := an.Unparen(resolve(accSetArg(n))).(*ast.CallExpr)
				return isCall
			}, bools: []string{"i.Done()", "accOk"}, ref: func(a dtAtoms) bool { return !a.B("i.Done()") && a.B("accOk") }},
		{fn: ".mergeKeys", key: "copies-new-keys", why: "a key only the other side has is copied with its clock", find: accSet,
			when: func(resolve func(ast.Expr) ast.Expr, info *types.Info, n ast.Node) bool {
				_, isIdent := an.Unparen(resolve(accSetArg(n))).(*ast.Ident)
				return isIdent
			}, bools: []string{"i.Done()", "accOk"}, ref: func(a dtAtoms) bool { return !a.B("i.Done()") && !a.B("accOk") }},
		{fn: "GCounter.Write", key: "adds-increment", why: "a write adds its argument to the node's own count", find: func(info *types.Info, n ast.Node) bool {
			as, ok := n.(*ast.AssignStmt)
			return ok && as.Tok == token.DEFINE && len(as.Lhs) == 1 && an.ObjOf(info, as.Lhs[0]) != nil && an.ObjOf(info, as.Lhs[0]).Name() == "newValue"
		}, valueOf: func(info *types.Info, n ast.Node) ast.Expr { return n.(*ast.AssignStmt).Rhs[0] },
			ints: map[string]string{"oldValue": "", "value.AsNumber()": ""}, bools: []string{"ok"}, refInt: func(a dtAtoms) int64 { return a.I("oldValue") + a.I("value.AsNumber()") },
			// ... or, without the named intermediate: the count stored is what getOrDefault read plus the argument
			alts: []dtRow{{find: func(info *types.Info, n ast.Node) bool {
				call, ok := n.(*ast.CallExpr)
				if !ok {
					return false
				}
				f := an.CalleeFunc(info, call)
				return f != nil && f.Name() == "Set" && len(call.Args) == 2
			}, valueOf: func(info *types.Info, n ast.Node) ast.Expr { return n.(*ast.CallExpr).Args[1] },
				ints:   map[string]string{"$.getOrDefault(id)": "", "value.AsNumber()": ""},
				refInt: func(a dtAtoms) int64 { return a.I("$.getOrDefault(id)") + a.I("value.AsNumber()") }}}},
		// LWWSet
		{fn: "LWWSet.isIn", key: "absent-add", why: "never added: not in the set", find: retBool(false), occ: true, bools: []string{"ok#1", "ok#2"}, ref: func(a dtAtoms) bool { return !a.B("ok#1") },
			// ... or, over the whole result: not in the set iff never added, or removed strictly later than added
			alts: []dtRow{{returns: &isFalse, occ: true, bools: []string{"ok#1", "ok#2", "addTimeStamp.Before(remTimeStamp)"},
				ref: func(a dtAtoms) bool {
					return !a.B("ok#1") || (a.B("ok#2") && a.B("addTimeStamp.Before(remTimeStamp)"))
				}}}},
		{fn: "LWWSet.isIn", key: "never-removed", why: "added and never removed: in the set", find: retBool(true), occ: true, bools: []string{"ok#1", "ok#2"}, ref: func(a dtAtoms) bool { return a.B("ok#1") && !a.B("ok#2") },
			alts: []dtRow{{returns: &isTrue, occ: true, bools: []string{"ok#1", "ok#2", "addTimeStamp.Before(remTimeStamp)"},
				ref: func(a dtAtoms) bool {
					return a.B("ok#1") && (!a.B("ok#2") || !a.B("addTimeStamp.Before(remTimeStamp)"))
				}}}},
		{fn: "LWWSet.Read", key: "lists-members", why: "Read lists exactly the elements that are in", find: builderSet("builder"), bools: []string{"it.Done()", "$.isIn(id)"},
			ref: func(a dtAtoms) bool { return !a.B("it.Done()") && a.B("$.isIn(id)") }},
		{fn: "LWWSet.Merge", key: "add-timestamps-take-later", occ: true, why: "the merged add timestamp is the later one", find: storeField("addSet", "Set"),
			bools: []string{"it.Done()#1", "it.Done()#2", "ok#1", "ok#2", "otherTimeStamp.After(selfTimeStamp)#1", "otherTimeStamp.After(selfTimeStamp)#2"},
			ref: func(a dtAtoms) bool {
				return !a.B("it.Done()#1") && (!a.B("ok#1") || a.B("otherTimeStamp.After(selfTimeStamp)#1"))
			}},
		{fn: "LWWSet.Merge", key: "remove-timestamps-take-later", occ: true, why: "the merged remove timestamp is the later one", find: storeField("remSet", "Set"),
			bools: []string{"it.Done()#1", "it.Done()#2", "ok#1", "ok#2", "otherTimeStamp.After(selfTimeStamp)#1", "otherTimeStamp.After(selfTimeStamp)#2"},
			ref: func(a dtAtoms) bool {
				return a.B("it.Done()#1") && !a.B("it.Done()#2") && (!a.B("ok#2") || a.B("otherTimeStamp.After(selfTimeStamp)#2"))
			}},
	}
	_ = strings.TrimSpace
	runDecisionRows(c, e, an.PkgResources, "", rows)
}

// callsMethodNamed: n is a call of a method with this name.
func callsMethodNamed(name string) func(info *types.Info, n ast.Node) bool {
	return func(info *types.Info, n ast.Node) bool {
		call, ok := n.(*ast.CallExpr)
		if !ok {
			return false
		}
		f := an.CalleeFunc(info, call)
		return f != nil && f.Name() == name && f.Type().(*types.Signature).Recv() != nil
	}
}

var isTrue, isFalse = true, false

// accSet: `x = y.Set(k, v)` (the accumulating store of a merge loop); accSetArg is its v.
func accSet(info *types.Info, n ast.Node) bool {
	as, ok := n.(*ast.AssignStmt)
	if !ok || len(as.Lhs) != 1 || len(as.Rhs) != 1 || as.Tok != token.ASSIGN {
		return false
	}
	call, ok := an.Unparen(as.Rhs[0]).(*ast.CallExpr)
	if !ok || len(call.Args) != 2 {
		return false
	}
	sel, ok := an.Unparen(call.Fun).(*ast.SelectorExpr)
	return ok && sel.Sel.Name == "Set"
}

func accSetArg(n ast.Node) ast.Expr {
	return an.Unparen(n.(*ast.AssignStmt).Rhs[0]).(*ast.CallExpr).Args[1]
}
