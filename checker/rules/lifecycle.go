package rules

import (
	"fmt"
	"go/ast"
	"go/constant"
	"go/token"
	"go/types"

	"golang.org/x/tools/go/cfg"

	"pgoverif/checker/an"
	"pgoverif/checker/core"
	"pgoverif/checker/load"
)

func init() {
	register(&core.Rule{ID: "STOP-ONCE", Props: []string{"C17"}, Floor: 2,
		Doc: "every send on requestExit happens under runStateLock, on the false side of a flag test, and sets that flag on the same path: at most one send ever, so the capacity-1 send cannot block while the lock is held",
		Run: runStopOnce})
	register(&core.Rule{ID: "CLOSE-ONCE", Props: []string{"C17"}, Floor: 4,
		Doc: "awaitExit is closed under runStateLock, either guarded by a non-blocking receive on it, or in Run's deferred epilogue which is registered only if the context has neither run nor been stopped before",
		Run: runCloseOnce})
	register(&core.Rule{ID: "STOP-WAITS", Props: []string{"C17"}, Floor: 1,
		Doc: "every path of Stop ends by receiving from awaitExit", Run: runStopWaits})
	register(&core.Rule{ID: "EXIT-POLL", Props: []string{"C17"}, Floor: 2,
		Doc: "each iteration of Run's loop polls requestExit (non-blocking select that returns) before it begins the next critical section",
		Run: runExitPoll})
	register(&core.Rule{ID: "CLEANUP-ALL", Props: []string{"C17"}, Floor: 3,
		Doc: "cleanupResources closes every registered resource and is called exactly from Run's deferred epilogue, its error merged into Run's result",
		Run: runCleanupAll})
	register(&core.Rule{ID: "NESTED-COUNT", Props: []string{"C17"}, Floor: 3,
		Doc: "each nested-context goroutine reports to ctxErrCh exactly once on every exit (deferred), the channel has room for all of them, and Close receives exactly one report per nested context",
		Run: runNestedCount})
}

// bodiesOf returns the declaration body and every nested literal body of fn.
type fnBody struct {
	body *ast.BlockStmt
	lit  *ast.FuncLit
}

func bodiesOf(fn *an.Func) []fnBody {
	out := []fnBody{{fn.Body(), nil}}
	ast.Inspect(fn.Body(), func(n ast.Node) bool {
		if l, ok := n.(*ast.FuncLit); ok {
			out = append(out, fnBody{l.Body, l})
		}
		return true
	})
	return out
}

func graphOfBody(e *Env, pk *load.Package, fn *an.Func, b fnBody) *an.Graph {
	if b.lit == nil {
		return e.Graph(fn)
	}
	return e.GraphOfLit(pk, b.lit)
}

// lockedBody: body calls <mutexField>.Lock() as a statement and defers <mutexField>.Unlock().
func lockedBody(info *types.Info, body *ast.BlockStmt, mutex *types.Var) (lock ast.Node, ok bool) {
	hasDefer := false
	for _, st := range body.List {
		switch x := st.(type) {
		case *ast.ExprStmt:
			if call, isCall := x.X.(*ast.CallExpr); isCall {
				if sel, isSel := an.Unparen(call.Fun).(*ast.SelectorExpr); isSel && sel.Sel.Name == "Lock" && an.SelectedField(info, sel.X) == mutex {
					lock = call
				}
			}
		case *ast.DeferStmt:
			if sel, isSel := an.Unparen(x.Call.Fun).(*ast.SelectorExpr); isSel && sel.Sel.Name == "Unlock" && an.SelectedField(info, sel.X) == mutex {
				hasDefer = true
			}
		}
	}
	return lock, lock != nil && hasDefer
}

func runStopOnce(c *core.Ctx) {
	e := EnvOf(c.Prog)
	ctxT := mustType(c, e, an.PkgDistsys, "MPCalContext")
	if ctxT == nil {
		return
	}
	reqExit, lockF := mustField(c, ctxT, "requestExit"), mustField(c, ctxT, "runStateLock")
	if reqExit == nil || lockF == nil {
		return
	}
	sends := 0
	for _, fn := range e.Ix.Funcs() {
		if fn.Pkg.Path != an.PkgDistsys {
			continue
		}
		info := fn.Pkg.Info
		for _, b := range bodiesOf(fn) {
			g := graphOfBody(e, fn.Pkg, fn, b)
			for _, s := range g.FindAtoms(func(a ast.Node) bool {
				ss, ok := a.(*ast.SendStmt)
				return ok && an.SelectedField(info, ss.Chan) == reqExit
			}) {
				sends++
				key := fmt.Sprintf("%s:send(requestExit)#%d", fn.Name(), sends)
				lock, locked := lockedBody(info, b.body, lockF)
				if !locked || !g.Dominates(lock, s) {
					c.Bad(key, s.Pos(), "the exit request is sent outside a runStateLock region: two Stops can both decide to send")
					continue
				}
				// flag test + flag set: the send is on the side of a test of a boolean field where the field is false
				// (`if !flag {...}` or `if flag { return }`), and the field is set on that side
				ok := false
				for _, blk := range g.CFG.Blocks {
					cd, _ := g.Cond(blk)
					if cd == nil {
						continue
					}
					ex := an.Unparen(cd.(ast.Expr))
					neg := false
					for {
						u, isU := ex.(*ast.UnaryExpr)
						if !isU || u.Op != token.NOT {
							break
						}
						neg = !neg
						ex = an.Unparen(u.X)
					}
					flag := an.SelectedField(info, ex)
					if flag == nil {
						continue
					}
					if b, isBasic := flag.Type().Underlying().(*types.Basic); !isBasic || b.Kind() != types.Bool {
						continue
					}
					falseSide := neg // the condition is true exactly when the flag is false iff it is negated
					if !g.GuardedBy(s, cd, falseSide) {
						continue
					}
					for _, set := range g.FindAtoms(func(a ast.Node) bool {
						rhs, isSet := fieldIsAssigned(info, a, flag)
						return isSet && isBoolConst(info, rhs, true)
					}) {
						if !g.GuardedBy(set, cd, falseSide) {
							continue
						}
						if g.Dominates(set, s) {
							ok = true
						} else if passes, _ := g.MustPass(s, func(a ast.Node) bool { return a == set }, nil); passes {
							ok = true
						}
					}
				}
				c.Check(ok, key, s.Pos(), "sent once: under the lock, only if the flag is false, and the flag is set on that path",
					"the exit request is sent under `if !flag` but the flag is not set on that path: a second Stop sends again (refilling the buffer Run already drained) and a third blocks on the full channel while holding runStateLock, which Run's epilogue needs - Stop and Run deadlock")
			}
		}
	}
	if sends == 0 {
		c.Lost("send(requestExit)", "no send on requestExit found")
	}
	// capacity 1 and created once in Run
	caps := 0
	for _, fn := range e.Ix.Funcs() {
		if fn.Pkg.Path != an.PkgDistsys {
			continue
		}
		info := fn.Pkg.Info
		ast.Inspect(fn.Body(), func(n ast.Node) bool {
			as, ok := n.(*ast.AssignStmt)
			if !ok {
				return true
			}
			for i, l := range as.Lhs {
				if an.SelectedField(info, l) != reqExit || i >= len(as.Rhs) || isNilIdent(info, as.Rhs[i]) {
					continue
				}
				caps++
				key := fmt.Sprintf("%s:requestExit-capacity#%d", fn.Name(), caps)
				call, ok := an.Unparen(as.Rhs[i]).(*ast.CallExpr)
				good := false
				if ok && an.IsBuiltin(info, call, "make") && len(call.Args) == 2 {
					if tv := info.Types[call.Args[1]]; tv.Value != nil {
						if v, isInt := constant.Int64Val(tv.Value); isInt && v == 1 {
							good = true
						}
					}
				}
				c.Check(good, key, as.Pos(), "make(chan struct{}, 1)", "requestExit is not a capacity-1 channel: with capacity 0 the single send blocks under the lock until Run polls")
			}
			return true
		})
	}
	if caps == 0 {
		c.Lost("requestExit-capacity", "no creation of requestExit found")
	}
}

func runCloseOnce(c *core.Ctx) {
	e := EnvOf(c.Prog)
	ctxT := mustType(c, e, an.PkgDistsys, "MPCalContext")
	if ctxT == nil {
		return
	}
	await, lockF, reqExit, exitReq := mustField(c, ctxT, "awaitExit"), mustField(c, ctxT, "runStateLock"), mustField(c, ctxT, "requestExit"), mustField(c, ctxT, "exitRequested")
	if await == nil || lockF == nil || reqExit == nil || exitReq == nil {
		return
	}
	closes := 0
	for _, fn := range e.Ix.Funcs() {
		if fn.Pkg.Path != an.PkgDistsys {
			continue
		}
		info := fn.Pkg.Info
		for _, b := range bodiesOf(fn) {
			g := graphOfBody(e, fn.Pkg, fn, b)
			for _, cl := range g.FindAtoms(func(a ast.Node) bool {
				call, ok := a.(*ast.CallExpr)
				return ok && an.IsBuiltin(info, call, "close") && len(call.Args) == 1 && an.SelectedField(info, call.Args[0]) == await
			}) {
				closes++
				key := fmt.Sprintf("%s:close(awaitExit)#%d", fn.Name(), closes)
				lock, locked := lockedBody(info, b.body, lockF)
				if !locked || !g.Dominates(lock, cl) {
					c.Bad(key, cl.Pos(), "awaitExit is closed outside a runStateLock region: a concurrent Stop could close it a second time (panic)")
					continue
				}
				// (a) default arm of a select whose other arm receives from awaitExit
				guardedBySelect := false
				if cc, ok := g.Enclosing(cl, func(m ast.Node) bool { _, ok := m.(*ast.CommClause); return ok }).(*ast.CommClause); ok && cc.Comm == nil {
					if sel, ok := g.Enclosing(cc, func(m ast.Node) bool { _, ok := m.(*ast.SelectStmt); return ok }).(*ast.SelectStmt); ok {
						for _, st := range sel.Body.List {
							oc := st.(*ast.CommClause)
							if es, ok := oc.Comm.(*ast.ExprStmt); ok {
								if u, ok := an.Unparen(es.X).(*ast.UnaryExpr); ok && u.Op == token.ARROW && an.SelectedField(info, u.X) == await {
									guardedBySelect = true
								}
							}
						}
					}
				}
				if guardedBySelect {
					c.Ok(key, cl.Pos(), "closed only if a non-blocking receive shows it is still open, under the lock")
					continue
				}
				// (b) Run's deferred epilogue
				if fn.Name() == "distsys.MPCalContext.Run" && b.lit != nil {
					c.Ok(key, cl.Pos(), "closed in Run's epilogue under the lock (registration conditions checked separately)")
					continue
				}
				c.Bad(key, cl.Pos(), "awaitExit is closed without first testing (non-blocking receive) that it is still open, outside Run's epilogue: a second close panics")
			}
		}
	}
	// Stop's case analysis: the request is sent only while the archetype runs (requestExit != nil); awaitExit is closed by Stop
	// only when it does not run (requestExit == nil) and no Stop came before (flag false), and on that path the flag is set
	if stop := mustMethod(c, e, an.PkgDistsys, "MPCalContext", "Stop"); stop != nil {
		info := stop.Pkg.Info
		for _, b := range bodiesOf(stop) {
			if b.lit == nil {
				continue
			}
			g := graphOfBody(e, stop.Pkg, stop, b)
			polar := func(a ast.Node, match func(ast.Expr) bool) (ok, whenTrue bool) {
				ex, isE := a.(ast.Expr)
				if !isE || !g.IsCondAtom(a) {
					return false, false
				}
				neg := false
				for {
					ex = an.Unparen(ex)
					u, isU := ex.(*ast.UnaryExpr)
					if !isU || u.Op != token.NOT {
						break
					}
					neg = !neg
					ex = u.X
				}
				if be, isB := ex.(*ast.BinaryExpr); isB && (be.Op == token.NEQ || be.Op == token.EQL) && isNilIdent(info, be.Y) && match(be.X) {
					return true, (be.Op == token.NEQ) != neg
				}
				if match(ex) {
					return true, !neg
				}
				return false, false
			}
			isReq := func(x ast.Expr) bool { return an.SelectedField(info, x) == reqExit }
			isFlag := func(x ast.Expr) bool { return an.SelectedField(info, x) == exitReq }
			guarded := func(n ast.Node, match func(ast.Expr) bool, positive bool) bool {
				for _, blk := range g.CFG.Blocks {
					cd, _ := g.Cond(blk)
					if cd == nil {
						continue
					}
					if ok, whenTrue := polar(cd, match); ok && g.GuardedBy(n, cd, whenTrue == positive) {
						return true
					}
				}
				return false
			}
			for _, snd := range g.FindAtoms(func(a ast.Node) bool {
				ss, ok := a.(*ast.SendStmt)
				return ok && an.SelectedField(info, ss.Chan) == reqExit
			}) {
				c.Check(guarded(snd, isReq, true), "Stop:request-only-while-running", snd.Pos(), "the exit request is sent only if requestExit != nil",
					"Stop sends on requestExit without knowing it is non-nil: before Run starts (or after it ended) the channel is nil and Stop blocks forever holding runStateLock")
			}
			for _, cl := range g.FindAtoms(func(a ast.Node) bool {
				call, ok := a.(*ast.CallExpr)
				return ok && an.IsBuiltin(info, call, "close") && len(call.Args) == 1 && an.SelectedField(info, call.Args[0]) == await
			}) {
				c.Check(guarded(cl, isReq, false), "Stop:close-only-when-not-running", cl.Pos(), "Stop closes awaitExit only on the requestExit == nil side",
					"Stop can close awaitExit while the archetype is running: Stop returns although critical sections still commit, and Run's epilogue closes the channel a second time (panic)")
				c.Check(guarded(cl, isFlag, false), "Stop:close-only-first-time", cl.Pos(), "only the first Stop (flag false) closes awaitExit",
					"Stop closes awaitExit on the exitRequested == true side: the first Stop before Run would not release waiters and would itself wait forever")
				set := g.FindAtoms(func(a ast.Node) bool {
					rhs, isSet := fieldIsAssigned(info, a, exitReq)
					return isSet && isBoolConst(info, rhs, true)
				})
				okSet := false
				for _, st := range set {
					if g.Dominates(st, cl) {
						okSet = true
					}
				}
				c.Check(okSet, "Stop:not-running-sets-flag", cl.Pos(), "exitRequested is set before awaitExit is closed on the not-running path",
					"a Stop before Run does not set exitRequested: a later Run would start although Stop already returned")
			}
		}
	}
	if closes < 2 {
		c.Lost("close(awaitExit)", "expected two close sites (Stop case 2a, Run epilogue), found %d", closes)
	}
	// Run: the epilogue is registered only if the context never ran (panic otherwise) and no Stop preceded it
	if fn := mustMethod(c, e, an.PkgDistsys, "MPCalContext", "Run"); fn != nil {
		info := fn.Pkg.Info
		g := e.Graph(fn)
		var deferAtom ast.Node
		for _, a := range g.FindAtoms(func(a ast.Node) bool { _, ok := a.(*ast.DeferStmt); return ok }) {
			ds := a.(*ast.DeferStmt)
			found := false
			ast.Inspect(ds, func(m ast.Node) bool {
				if call, ok := m.(*ast.CallExpr); ok && an.IsBuiltin(info, call, "close") && len(call.Args) == 1 && an.SelectedField(info, call.Args[0]) == await {
					found = true
				}
				return true
			})
			if found {
				deferAtom = a
			}
		}
		if deferAtom == nil {
			c.Bad("Run:epilogue", fn.Pos(), "Run has no deferred epilogue closing awaitExit: Stop would wait forever")
		} else {
			// guarded by the false side of a test on a bool local computed by a locked literal
			var gateLit *ast.FuncLit
			okGate := false
			for _, cd := range g.CondAtoms(func(ex ast.Expr) bool { return an.ObjOf(info, ex) != nil }) {
				obj := an.ObjOf(info, cd.(ast.Expr))
				if !g.GuardedBy(deferAtom, cd, false) {
					continue
				}
				ast.Inspect(fn.Body(), func(m ast.Node) bool {
					if as, ok := m.(*ast.AssignStmt); ok && len(as.Lhs) == 1 && an.ObjOf(info, as.Lhs[0]) == obj {
						if call, ok := an.Unparen(as.Rhs[0]).(*ast.CallExpr); ok {
							if l, ok := an.Unparen(call.Fun).(*ast.FuncLit); ok {
								gateLit = l
								okGate = true
							}
						}
					}
					return true
				})
			}
			c.Check(okGate, "Run:epilogue-gated", deferAtom.Pos(), "the epilogue is registered only past the already-run / already-stopped gate", "Run registers its epilogue (which closes awaitExit) without first checking, under the lock, that the context was not stopped or run before: awaitExit could be closed twice")
			if gateLit != nil {
				lg := e.GraphOfLit(fn.Pkg, gateLit)
				_, locked := lockedBody(info, gateLit.Body, lockF)
				c.Check(locked, "Run:gate-locked", gateLit.Pos(), "the gate runs under runStateLock", "the already-run / already-stopped gate does not hold runStateLock")
				// panics if requestExit != nil
				panics := false
				for _, cd := range lg.CondAtoms(func(ex ast.Expr) bool {
					be, ok := an.Unparen(ex).(*ast.BinaryExpr)
					return ok && be.Op == token.NEQ && an.SelectedField(info, be.X) == reqExit && isNilIdent(info, be.Y)
				}) {
					for _, p := range lg.FindAtoms(func(a ast.Node) bool {
						call, ok := a.(*ast.CallExpr)
						return ok && an.IsBuiltin(info, call, "panic")
					}) {
						if lg.GuardedBy(p, cd, true) {
							panics = true
						}
					}
				}
				c.Check(panics, "Run:at-most-once", gateLit.Pos(), "a second Run panics", "a second Run on the same context is not rejected: two epilogues would close awaitExit twice and resources would be closed twice")
				// returns true if exitRequested
				early := false
				for _, cd := range lg.CondAtoms(func(ex ast.Expr) bool { return an.SelectedField(info, ex) == exitReq }) {
					for _, r := range lg.FindAtoms(func(a ast.Node) bool {
						rs, ok := a.(*ast.ReturnStmt)
						return ok && len(rs.Results) == 1 && isBoolConst(info, rs.Results[0], true)
					}) {
						if lg.GuardedBy(r, cd, true) {
							early = true
						}
					}
				}
				c.Check(early, "Run:never-starts-after-Stop", gateLit.Pos(), "Run does not start if Stop was called first", "Run starts although Stop was already called (exitRequested): Stop has returned but critical sections would still commit, and awaitExit would be closed twice")
			}
			// nothing that can panic runs between the gate (which marks the context as started: requestExit != nil) and the
			// registration of the epilogue: a panic there leaves a started context whose awaitExit is never closed
			if gateLit != nil {
				var gateCall ast.Node
				for _, a := range g.FindAtoms(func(a ast.Node) bool {
					call, ok := a.(*ast.CallExpr)
					return ok && an.Unparen(call.Fun) == ast.Expr(gateLit)
				}) {
					gateCall = a
				}
				var between []string
				if gateCall != nil {
					g.AllAtoms(func(a ast.Node) {
						call, ok := a.(*ast.CallExpr)
						if !ok || a == gateCall {
							return
						}
						if _, isDefer := g.Parent(a).(*ast.DeferStmt); isDefer {
							return
						}
						if id, ok := an.Unparen(call.Fun).(*ast.Ident); ok {
							if _, isB := info.Uses[id].(*types.Builtin); isB {
								return
							}
						}
						if tv, ok := info.Types[call.Fun]; ok && tv.IsType() {
							return
						}
						if g.Search(an.Query{From: gateCall, Target: func(y ast.Node) bool { return y == a }, Avoid: func(y ast.Node) bool { return y == deferAtom }}).Found {
							between = append(between, types.ExprString(call.Fun))
						}
					})
				}
				c.Check(gateCall != nil && len(between) == 0, "Run:epilogue-registered-right-after-the-gate", deferAtom.Pos(), "no call runs between the gate and the registration of the epilogue",
					fmt.Sprintf("Run calls %v after the gate has marked the context as started but before the epilogue is registered: if that call panics (a missing parameter, a failing PreAmble) awaitExit is never closed and the resources are never cleaned up, so every later Stop blocks for ever", between))
			}
			// the epilogue nils requestExit under the lock so later Stops take case 2
			nils := false
			ast.Inspect(deferAtom, func(m ast.Node) bool {
				if as, ok := m.(*ast.AssignStmt); ok && len(as.Lhs) == 1 && len(as.Rhs) == 1 && an.SelectedField(info, as.Lhs[0]) == reqExit && isNilIdent(info, as.Rhs[0]) {
					nils = true
				}
				return true
			})
			c.Check(nils, "Run:epilogue-retires-requestExit", deferAtom.Pos(), "requestExit is set to nil after termination", "Run's epilogue does not nil requestExit: a Stop after termination would send on a channel nobody reads")
		}
	}
}

func runStopWaits(c *core.Ctx) {
	e := EnvOf(c.Prog)
	ctxT := mustType(c, e, an.PkgDistsys, "MPCalContext")
	fn := mustMethod(c, e, an.PkgDistsys, "MPCalContext", "Stop")
	if ctxT == nil || fn == nil {
		return
	}
	await := mustField(c, ctxT, "awaitExit")
	if await == nil {
		return
	}
	g := e.Graph(fn)
	info := fn.Pkg.Info
	isWait := func(a ast.Node) bool {
		u, ok := a.(*ast.UnaryExpr)
		return ok && u.Op == token.ARROW && an.SelectedField(info, u.X) == await
	}
	ok, _ := g.MustPass(nil, isWait, nil)
	c.Check(ok, "Stop:waits-for-exit", fn.Pos(), "every path of Stop receives from awaitExit before returning",
		"Stop can return without waiting for awaitExit: the archetype may still commit critical sections after Stop returned")
	// the wait is outside the lock region (not inside the locked literal)
	for _, w := range g.FindAtoms(isWait) {
		if g.Enclosing(w, func(m ast.Node) bool { _, ok := m.(*ast.FuncLit); return ok }) != nil {
			c.Bad("Stop:wait-outside-lock", w.Pos(), "Stop waits for awaitExit inside a literal (lock region): Run's epilogue needs the lock to close the channel")
		}
	}
}

func runExitPoll(c *core.Ctx) {
	e := EnvOf(c.Prog)
	ctxT := mustType(c, e, an.PkgDistsys, "MPCalContext")
	fn := mustMethod(c, e, an.PkgDistsys, "MPCalContext", "Run")
	if ctxT == nil || fn == nil {
		return
	}
	reqExit := mustField(c, ctxT, "requestExit")
	csT := e.Ix.LookupType(an.PkgDistsys, "MPCalCriticalSection")
	bodyFld := an.Field(csT, "Body")
	if reqExit == nil || bodyFld == nil {
		c.Lost("Run:anchors", "requestExit / MPCalCriticalSection.Body not found")
		return
	}
	g := e.Graph(fn)
	info := fn.Pkg.Info
	// the poll clause
	var clause *ast.CommClause
	var sel *ast.SelectStmt
	var allClauses []*ast.CommClause
	ast.Inspect(fn.Body(), func(n ast.Node) bool {
		if _, isLit := n.(*ast.FuncLit); isLit {
			return false
		}
		s, ok := n.(*ast.SelectStmt)
		if !ok {
			return true
		}
		for _, st := range s.Body.List {
			cc := st.(*ast.CommClause)
			if es, ok := cc.Comm.(*ast.ExprStmt); ok {
				if u, ok := an.Unparen(es.X).(*ast.UnaryExpr); ok && u.Op == token.ARROW && an.SelectedField(info, u.X) == reqExit {
					clause, sel = cc, s
					allClauses = append(allClauses, cc)
				}
			}
		}
		return true
	})
	if clause == nil {
		c.Bad("Run:polls-requestExit", fn.Pos(), "Run's loop never polls requestExit: Stop would wait until the archetype terminates by itself")
		return
	}
	hasDefault, returns := false, false
	for _, st := range sel.Body.List {
		if st.(*ast.CommClause).Comm == nil {
			hasDefault = true
		}
	}
	for _, st := range clause.Body {
		if _, ok := st.(*ast.ReturnStmt); ok {
			returns = true
		}
	}
	c.Check(hasDefault, "Run:poll-nonblocking", sel.Pos(), "the poll has a default arm", "the requestExit poll has no default arm: Run would block until Stop is called")
	c.Check(returns, "Run:poll-returns", clause.Pos(), "an exit request makes Run return", "receiving an exit request does not make Run return")
	// the select head dominates the critical-section steps of the iteration
	bb := g.BlockOfStmt(clause, cfg.KindSelectCaseBody)
	if bb == nil {
		c.Lost("Run:poll-block", "CFG block of the poll clause not found")
		return
	}
	head := g.Idom(int(bb.Index))
	for head > 0 && g.CFG.Blocks[head].Kind == cfg.KindSelectAfterCase {
		head = g.Idom(head)
	}
	steps := map[string]ast.Node{}
	g.AllAtoms(func(a ast.Node) {
		call, ok := a.(*ast.CallExpr)
		if !ok {
			return
		}
		if an.SelectedField(info, call.Fun) == bodyFld {
			steps["Body"] = a
		}
		if callsMethodOf(info, a, an.PkgDistsys, "MPCalContext", "commit") {
			steps["commit"] = a
		}
		if f := an.CalleeFunc(info, call); f != nil && f.Name() == "BeginEvent" {
			steps["BeginEvent"] = a
		}
	})
	for _, name := range []string{"BeginEvent", "Body", "commit"} {
		a := steps[name]
		if a == nil {
			c.Lost("Run:"+name, "step not found in Run")
			continue
		}
		p, _ := g.PointOf(a)
		c.Check(head >= 0 && g.BlockDominates(head, p.Block) && head != p.Block, "Run:poll-before-"+name, a.Pos(), "the exit poll precedes "+name+" in every iteration",
			"Run can reach "+name+" without polling requestExit first in that iteration: a critical section may start (and commit) after Stop was requested at the label boundary")
	}
	// and the poll is inside the loop: some loop block dominates head and is reachable from Body
	if b := steps["Body"]; b != nil {
		p := g.Search(an.Query{From: b, Target: func(a ast.Node) bool { return a == b }, Avoid: func(a ast.Node) bool {
			pa, ok := g.PointOf(a)
			return ok && pa.Block == int(bb.Index)
		}})
		_ = p
		// every cycle passes the select head block: check by cutting the head's outgoing edges
		cyc := g.Search(an.Query{From: b, Target: func(a ast.Node) bool { return a == b }, Edges: func(from *cfg.Block, i int) bool { return int(from.Index) != head }})
		// the poll may end Run only once the outcome of the section that just ran was dispatched: from Body there is no
		// path into the poll clause that does not evaluate a switch on the named error result
		errVar := namedResult(fn, 0)
		// the dispatch on the section outcome: a switch on err, or conditions comparing err with something
		isHead := func(a ast.Node) bool {
			ex, ok := a.(ast.Expr)
			if !ok || errVar == nil {
				return false
			}
			if sw, isSw := g.Parent(a).(*ast.SwitchStmt); isSw && sw.Tag == ex && an.ObjOf(info, ex) == errVar {
				return true
			}
			if !g.IsCondAtom(a) {
				return false
			}
			found := false
			ast.Inspect(ex, func(m ast.Node) bool {
				if be, ok := m.(*ast.BinaryExpr); ok && (be.Op == token.EQL || be.Op == token.NEQ) {
					if (an.ObjOf(info, be.X) == errVar && !isNilIdent(info, be.Y)) || (an.ObjOf(info, be.Y) == errVar && !isNilIdent(info, be.X)) {
						found = true
					}
				}
				return true
			})
			return found
		}
		if len(g.FindAtoms(isHead)) == 0 {
			c.Lost("Run:error-dispatch", "no dispatch on the named error result (switch or sentinel comparisons) found in Run")
		} else {
			first := func(list []ast.Stmt) ast.Node {
				if len(list) == 0 {
					return nil
				}
				return list[0]
			}
			found := false
			for _, cl := range allClauses {
				target := first(cl.Body)
				if target == nil {
					continue
				}
				pt, ok2 := g.PointOf(target)
				q := g.Search(an.Query{From: b, Target: func(a ast.Node) bool {
					pa, ok1 := g.PointOf(a)
					return ok1 && ok2 && pa.Block == pt.Block
				}, Avoid: isHead})
				if q.Found {
					found = true
				}
			}
			c.Check(!found, "Run:poll-after-outcome-dispatch", sel.Pos(), "the exit poll is reached from Body only through the switch on err",
				"an exit request can end Run before the outcome of the section that just ran was dispatched: a failure is reported as a clean stop and an aborted section is never rolled back")
		}
		c.Check(!cyc.Found, "Run:poll-every-iteration", sel.Pos(), "every cycle from Body back to Body evaluates the poll", "there is a cycle from Body to Body that does not evaluate the requestExit poll")
	}
}

func runCleanupAll(c *core.Ctx) {
	e := EnvOf(c.Prog)
	iface := resourceIface(c, e)
	ctxT := mustType(c, e, an.PkgDistsys, "MPCalContext")
	fn := mustMethod(c, e, an.PkgDistsys, "MPCalContext", "cleanupResources")
	run := mustMethod(c, e, an.PkgDistsys, "MPCalContext", "Run")
	if iface == nil || ctxT == nil || fn == nil || run == nil {
		return
	}
	resources := mustField(c, ctxT, "resources")
	if resources == nil {
		return
	}
	info := fn.Pkg.Info
	ranges, closes, merged := false, false, false
	ast.Inspect(fn.Body(), func(n ast.Node) bool {
		rs, ok := n.(*ast.RangeStmt)
		if !ok || an.SelectedField(info, rs.X) != resources || rs.Value == nil {
			return true
		}
		ranges = true
		v := an.ObjOf(info, rs.Value)
		var cerr types.Object
		isClose := func(x ast.Expr) bool {
			call, ok := an.Unparen(x).(*ast.CallExpr)
			if !ok {
				return false
			}
			name, recv, ok := lifecycleCall(info, call, iface)
			return ok && name == "Close" && an.ObjOf(info, recv) == v
		}
		ast.Inspect(rs.Body, func(m ast.Node) bool {
			if as, ok := m.(*ast.AssignStmt); ok && len(as.Rhs) == 1 {
				if isClose(as.Rhs[0]) {
					closes = true
					cerr = an.ObjOf(info, as.Lhs[0])
				}
				if call, ok := an.Unparen(as.Rhs[0]).(*ast.CallExpr); ok {
					if f := an.CalleeFunc(info, call); f != nil && f.Name() == "Append" && f.Pkg() != nil && f.Pkg().Path() == "go.uber.org/multierr" {
						for _, a := range call.Args {
							if cerr != nil && an.ObjOf(info, a) == cerr {
								merged = true
							}
							// multierr.Append(err, res.Close()): the error is merged where it is produced
							if isClose(a) {
								closes, merged = true, true
							}
						}
					}
				}
			}
			return true
		})
		return true
	})
	c.Check(ranges && closes, "cleanupResources:closes-every-resource", fn.Pos(), "ranges over ctx.resources and calls Close on each", "cleanupResources does not close every registered resource")
	c.Check(merged, "cleanupResources:keeps-errors", fn.Pos(), "Close errors are merged with multierr.Append", "a resource's Close error is dropped")
	// callers
	callers := 0
	for _, f2 := range e.Ix.Funcs() {
		i2 := f2.Pkg.Info
		for _, b := range bodiesOf(f2) {
			an.Inspect(b.body, func(n ast.Node) bool {
				call, ok := n.(*ast.CallExpr)
				if !ok || an.CalleeFunc(i2, call) != fn.Obj {
					return true
				}
				callers++
				inDefer := false
				if b.lit != nil && f2 == run {
					// the literal must be the function of a DeferStmt of Run
					ast.Inspect(run.Body(), func(m ast.Node) bool {
						if ds, ok := m.(*ast.DeferStmt); ok && an.Unparen(ds.Call.Fun) == ast.Expr(b.lit) {
							inDefer = true
						}
						return true
					})
				}
				key := fmt.Sprintf("%s:calls-cleanupResources#%d", f2.Name(), callers)
				if !inDefer {
					c.Bad(key, call.Pos(), "cleanupResources is called outside Run's deferred epilogue: resources would be closed while the archetype still runs, or twice")
					return true
				}
				// result merged into Run's named result
				errVar := namedResult(run, 0)
				as, isAs := parentAssign(b.body, call)
				okMerge := false
				if isAs && errVar != nil && len(as.Lhs) == 1 && an.ObjOf(i2, as.Lhs[0]) == errVar {
					okMerge = true
				}
				c.Check(okMerge, key, call.Pos(), "called from the epilogue, its error merged into Run's result", "the error of cleanupResources is not merged into Run's result")
				return true
			})
		}
	}
	if callers == 0 {
		c.Bad("cleanupResources:called", fn.Pos(), "cleanupResources is never called: resources are never closed")
	}
}

// parentAssign finds the assignment statement whose right-hand side contains call.
func parentAssign(body ast.Node, call *ast.CallExpr) (*ast.AssignStmt, bool) {
	var found *ast.AssignStmt
	ast.Inspect(body, func(n ast.Node) bool {
		as, ok := n.(*ast.AssignStmt)
		if !ok {
			return true
		}
		for _, r := range as.Rhs {
			ast.Inspect(r, func(m ast.Node) bool {
				if m == ast.Node(call) {
					found = as
				}
				return true
			})
		}
		return true
	})
	return found, found != nil
}

func runNestedCount(c *core.Ctx) {
	e := EnvOf(c.Prog)
	t := mustType(c, e, an.PkgResources, "nestedArchetype")
	newN := mustFunc(c, e, an.PkgResources, "NewNested")
	closeM := mustMethod(c, e, an.PkgResources, "nestedArchetype", "Close")
	if t == nil || newN == nil || closeM == nil {
		return
	}
	errCh, ctxs := mustField(c, t, "ctxErrCh"), mustField(c, t, "nestedCtxs")
	if errCh == nil || ctxs == nil {
		return
	}
	info := newN.Pkg.Info
	// goroutines in NewNested that call Run
	n := 0
	ast.Inspect(newN.Body(), func(m ast.Node) bool {
		gs, ok := m.(*ast.GoStmt)
		if !ok {
			return true
		}
		lit, ok := an.Unparen(gs.Call.Fun).(*ast.FuncLit)
		if !ok {
			return true
		}
		runs := false
		ast.Inspect(lit.Body, func(k ast.Node) bool {
			if call, ok := k.(*ast.CallExpr); ok && an.IsMethodNamed(an.CalleeFunc(info, call), an.PkgDistsys, "MPCalContext", "Run") {
				runs = true
			}
			return true
		})
		if !runs {
			return true
		}
		n++
		key := fmt.Sprintf("NewNested:goroutine#%d", n)
		// however the nested Run ends (nil or error), the "a nested context has stopped" channel ends up closed: every
		// path from Run's return to the goroutine's end passes the close or the receive that shows it is closed already
		if stopped := an.Field(t, "ctxHasStopped"); stopped != nil {
			lg := e.GraphOfLit(newN.Pkg, lit)
			runCalls := lg.FindAtoms(func(a ast.Node) bool {
				call, ok := a.(*ast.CallExpr)
				return ok && an.IsMethodNamed(an.CalleeFunc(info, call), an.PkgDistsys, "MPCalContext", "Run")
			})
			okStop := len(runCalls) > 0
			for _, rc := range runCalls {
				passes, _ := lg.MustPass(rc, func(a ast.Node) bool {
					switch x := a.(type) {
					case *ast.CallExpr:
						return an.IsBuiltin(info, x, "close") && len(x.Args) == 1 && an.SelectedField(info, x.Args[0]) == stopped
					case *ast.UnaryExpr:
						return x.Op == token.ARROW && an.SelectedField(info, x.X) == stopped
					}
					return false
				}, nil)
				if !passes {
					okStop = false
				}
			}
			c.Check(okStop, key+":signals-stopped-on-every-exit", lit.Pos(), "ctxHasStopped is closed (or seen closed) on every path after the nested Run returns",
				"a nested context can end (e.g. normally, with a nil error) without ctxHasStopped being closed: later operations on the nested resource wait for an archetype that is gone, their Abort blocks forever and the containing context can never be stopped")
		} else {
			c.Lost(key+":ctxHasStopped", "field ctxHasStopped not found")
		}
		// first statement(s): a defer whose literal sends on ctxErrCh; no other send
		deferred, others := 0, 0
		for _, st := range lit.Body.List {
			if ds, ok := st.(*ast.DeferStmt); ok {
				ast.Inspect(ds, func(k ast.Node) bool {
					if s, ok := k.(*ast.SendStmt); ok && an.SelectedField(info, s.Chan) == errCh {
						deferred++
					}
					return true
				})
			}
		}
		ast.Inspect(lit.Body, func(k ast.Node) bool {
			if s, ok := k.(*ast.SendStmt); ok && an.SelectedField(info, s.Chan) == errCh {
				others++
			}
			return true
		})
		// the defer must be registered before Run is called (top-level statement preceding it)
		firstIsDefer := false
		for _, st := range lit.Body.List {
			if _, ok := st.(*ast.DeferStmt); ok {
				firstIsDefer = true
				break
			}
			if _, ok := st.(*ast.DeclStmt); ok {
				continue
			}
			break
		}
		c.Check(deferred == 1 && others == 1 && firstIsDefer, key+":reports-exactly-once", lit.Pos(), "a deferred send reports the Run result exactly once on every exit, including panics",
			"the goroutine running a nested context does not report to ctxErrCh exactly once on every exit (deferred before Run): nestedArchetype.Close would wait forever or read a stale report")
		return true
	})
	if n == 0 {
		c.Lost("NewNested:goroutines", "no goroutine calling Run found")
	}
	// capacity = len(nestedCtxs)
	capOK := false
	ast.Inspect(newN.Body(), func(m ast.Node) bool {
		kv, ok := m.(*ast.KeyValueExpr)
		if !ok {
			return true
		}
		if id, ok := kv.Key.(*ast.Ident); ok && info.Uses[id] == errCh {
			if call, ok := an.Unparen(kv.Value).(*ast.CallExpr); ok && an.IsBuiltin(info, call, "make") && len(call.Args) == 2 {
				if lc, ok := an.Unparen(call.Args[1]).(*ast.CallExpr); ok && an.IsBuiltin(info, lc, "len") {
					capOK = true
				}
			}
		}
		return true
	})
	c.Check(capOK, "NewNested:ctxErrCh-capacity", newN.Pos(), "ctxErrCh has room for one report per nested context", "ctxErrCh is not created with capacity len(nestedCtxs): a nested goroutine could block forever on its exit report")
	// Close: stops every nested ctx and receives once per ctx
	ci := closeM.Pkg.Info
	stops, recvs := false, false
	overCtxs := func(x ast.Expr) bool { return an.SelectedField(ci, x) == ctxs }
	ast.Inspect(closeM.Body(), func(m ast.Node) bool {
		st, isStmt := m.(ast.Stmt)
		if !isStmt {
			return true
		}
		loopBody, _, ok := perElementLoop(ci, st, overCtxs)
		if !ok {
			return true
		}
		ast.Inspect(loopBody, func(k ast.Node) bool {
			switch x := k.(type) {
			case *ast.CallExpr:
				if an.IsMethodNamed(an.CalleeFunc(ci, x), an.PkgDistsys, "MPCalContext", "Stop") {
					stops = true
				}
			case *ast.SelectorExpr:
				// go nestedCtx.Stop() - method value in a go statement
				if sel, ok := ci.Selections[x]; ok && sel.Kind() == types.MethodVal && an.IsMethodNamed(sel.Obj().(*types.Func), an.PkgDistsys, "MPCalContext", "Stop") {
					stops = true
				}
			case *ast.UnaryExpr:
				if x.Op == token.ARROW && an.SelectedField(ci, x.X) == errCh {
					recvs = true
				}
			}
			return true
		})
		return true
	})
	// both loops run on every path of Close, the stop requests first
	cg := e.Graph(closeM)
	var stopX, recvX ast.Node
	ast.Inspect(closeM.Body(), func(m ast.Node) bool {
		st, isStmt := m.(ast.Stmt)
		if !isStmt {
			return true
		}
		loopBody, loopX, ok := perElementLoop(ci, st, overCtxs)
		if !ok {
			return true
		}
		isStop, isRecv := false, false
		ast.Inspect(loopBody, func(k ast.Node) bool {
			switch x := k.(type) {
			case *ast.SelectorExpr:
				if sel, ok := ci.Selections[x]; ok && sel.Kind() == types.MethodVal && an.IsMethodNamed(sel.Obj().(*types.Func), an.PkgDistsys, "MPCalContext", "Stop") {
					isStop = true
				}
			case *ast.UnaryExpr:
				if x.Op == token.ARROW && an.SelectedField(ci, x.X) == errCh {
					isRecv = true
				}
			}
			return true
		})
		if isStop && stopX == nil {
			stopX = loopX
		}
		if isRecv && recvX == nil {
			recvX = loopX
		}
		return true
	})
	if stopX != nil && recvX != nil {
		holds := func(x ast.Node) func(ast.Node) bool {
			return func(a ast.Node) bool { return containsOutsideLiterals(a, x) }
		}
		okS, _ := cg.MustPass(nil, holds(stopX), nil)
		okR, _ := cg.MustPass(nil, holds(recvX), nil)
		c.Check(okS, "nestedArchetype.Close:stops-unconditionally", stopX.Pos(), "every path of Close runs the loop that requests Stop for each nested context",
			"Close can skip the loop that stops the nested contexts: a nested archetype that is still running is never stopped and Close waits for its report forever")
		c.Check(okR, "nestedArchetype.Close:collects-unconditionally", recvX.Pos(), "every path of Close collects the exit reports",
			"Close can return without collecting the exit reports of the nested contexts: it returns while nested archetypes still run")
		c.Check(okS && okR && cg.Dominates(stopX, recvX), "nestedArchetype.Close:stop-before-collect", recvX.Pos(), "the stop requests precede the collection of reports",
			"Close waits for the exit reports before requesting the nested contexts to stop: it would wait forever")
	}
	c.Check(stops, "nestedArchetype.Close:stops-every-context", closeM.Pos(), "Stop is requested for every nested context", "Close does not stop every nested context")
	c.Check(recvs, "nestedArchetype.Close:collects-every-report", closeM.Pos(), "one report is received per nested context", "Close does not receive exactly one exit report per nested context")
}
