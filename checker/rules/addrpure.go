package rules

import (
	"fmt"
	"go/ast"
	"go/token"
	"go/types"
	"sort"
	"strings"

	"pgoverif/checker/an"
	"pgoverif/checker/core"
	"pgoverif/checker/load"
)

func init() {
	register(&core.Rule{ID: "ADDR-PURE", Props: []string{"C19", "C06"}, Floor: 6,
		Doc: "the address a node's resources are given for a peer is a function of the configuration and the peer's id: no function that computes an address handed to a distsys/resources constructor (failure detectors, mailboxes, CRDT and 2PC peers) in the systems' bootstrap code reads or writes a package-level variable that the program changes at run time. An address remembered across calls (a cache keyed by the id alone) answers for another configuration or an earlier deployment of the same process: the detector then watches, and the mailbox dials, the wrong peer",
		Run: runAddrPure})
}

func runAddrPure(c *core.Ctx) {
	e := EnvOf(c.Prog)
	var pkgs []*load.Package
	for _, pk := range c.Prog.Sorted() {
		if strings.HasPrefix(pk.Path, an.ModPrefix+"systems/") {
			pkgs = append(pkgs, pk)
		}
	}
	if len(pkgs) == 0 {
		c.Lost("systems", "no package under systems/ loaded")
		return
	}
	pkgVarRoot := func(info *types.Info, x ast.Expr) *types.Var {
		for {
			switch y := an.Unparen(x).(type) {
			case *ast.IndexExpr:
				x = y.X
				continue
			case *ast.SelectorExpr:
				if _, isSel := info.Selections[y]; isSel {
					x = y.X
					continue
				}
				// qualified identifier pkg.Var
				if v, ok := info.Uses[y.Sel].(*types.Var); ok && v.Parent() == v.Pkg().Scope() {
					return v
				}
				return nil
			case *ast.StarExpr:
				x = y.X
				continue
			case *ast.Ident:
				if v, ok := info.ObjectOf(y).(*types.Var); ok && v.Pkg() != nil && v.Parent() == v.Pkg().Scope() {
					return v
				}
				return nil
			}
			return nil
		}
	}
	// package-level variables the program changes at run time (assigned, or a map / slice element of them assigned, in a function body)
	mutable := map[*types.Var]token.Pos{}
	for _, pk := range pkgs {
		for _, f := range pk.Files {
			for _, d := range f.Decls {
				fd, ok := d.(*ast.FuncDecl)
				if !ok || fd.Body == nil || (fd.Recv == nil && fd.Name.Name == "init") {
					continue
				}
				ast.Inspect(fd.Body, func(n ast.Node) bool {
					switch x := n.(type) {
					case *ast.AssignStmt:
						if x.Tok == token.DEFINE {
							return true
						}
						for _, l := range x.Lhs {
							if v := pkgVarRoot(pk.Info, l); v != nil {
								mutable[v] = l.Pos()
							}
						}
					case *ast.IncDecStmt:
						if v := pkgVarRoot(pk.Info, x.X); v != nil {
							mutable[v] = x.Pos()
						}
					case *ast.CallExpr:
						if (an.IsBuiltin(pk.Info, x, "delete") || an.IsBuiltin(pk.Info, x, "clear")) && len(x.Args) > 0 {
							if v := pkgVarRoot(pk.Info, x.Args[0]); v != nil {
								mutable[v] = x.Pos()
							}
						}
					}
					return true
				})
			}
		}
	}
	returnsAddress := func(sig *types.Signature) bool {
		if sig == nil || sig.Results().Len() == 0 {
			return false
		}
		last := sig.Results().At(sig.Results().Len() - 1).Type()
		b, ok := last.Underlying().(*types.Basic)
		return ok && b.Kind() == types.String
	}
	type body struct {
		pk   *load.Package
		node ast.Node // *ast.FuncLit or *ast.FuncDecl
		name string
	}
	// functions that compute an address: collected from the arguments of resources constructors
	seen := map[ast.Node]bool{}
	var work []body
	var addFromExpr func(pk *load.Package, encl *ast.FuncDecl, x ast.Node, depth int)
	addFunc := func(pk *load.Package, node ast.Node, name string, depth int) {
		if seen[node] || depth > 4 {
			return
		}
		seen[node] = true
		work = append(work, body{pk, node, name})
		var b *ast.BlockStmt
		var encl *ast.FuncDecl
		switch x := node.(type) {
		case *ast.FuncLit:
			b = x.Body
		case *ast.FuncDecl:
			b, encl = x.Body, x
		}
		if b != nil {
			// what an address function calls is part of the computation
			ast.Inspect(b, func(n ast.Node) bool {
				if call, ok := n.(*ast.CallExpr); ok {
					if callee := an.CalleeFunc(pk.Info, call); callee != nil && callee.Pkg() != nil && strings.HasPrefix(callee.Pkg().Path(), an.ModPrefix+"systems/") {
						if f := e.Ix.FuncOf(callee); f != nil && f.Decl != nil && !seen[f.Decl] {
							seen[f.Decl] = true
							work = append(work, body{f.Pkg, f.Decl, f.Name()})
							addFromExpr(f.Pkg, f.Decl, f.Decl.Body, depth+1)
						}
					}
				}
				return true
			})
		}
		_ = encl
	}
	addFromExpr = func(pk *load.Package, encl *ast.FuncDecl, x ast.Node, depth int) {
		if x == nil || depth > 4 {
			return
		}
		ast.Inspect(x, func(n ast.Node) bool {
			switch y := n.(type) {
			case *ast.FuncLit:
				if sig, _ := pk.Info.TypeOf(y).(*types.Signature); returnsAddress(sig) {
					addFunc(pk, y, fmt.Sprintf("%s:func-literal", an.ShortPkg(pk.Path)), depth)
				}
			case *ast.CallExpr:
				if callee := an.CalleeFunc(pk.Info, y); callee != nil && callee.Pkg() != nil && strings.HasPrefix(callee.Pkg().Path(), an.ModPrefix+"systems/") {
					if sig, _ := callee.Type().(*types.Signature); returnsAddress(sig) {
						if f := e.Ix.FuncOf(callee); f != nil && f.Decl != nil {
							addFunc(f.Pkg, f.Decl, f.Name(), depth)
						}
					}
				}
			case *ast.Ident:
				// a local bound once to a literal or to the result of an address function
				o := pk.Info.Uses[y]
				if o == nil || encl == nil || encl.Body == nil {
					return true
				}
				if fn, ok := o.(*types.Func); ok && fn.Pkg() != nil && strings.HasPrefix(fn.Pkg().Path(), an.ModPrefix+"systems/") {
					if sig, _ := fn.Type().(*types.Signature); returnsAddress(sig) {
						if f := e.Ix.FuncOf(fn); f != nil && f.Decl != nil {
							addFunc(f.Pkg, f.Decl, f.Name(), depth)
						}
					}
					return true
				}
				if v, ok := o.(*types.Var); ok && !v.IsField() && v.Parent() != pk.Types.Scope() {
					ast.Inspect(encl.Body, func(m ast.Node) bool {
						if as, ok := m.(*ast.AssignStmt); ok && len(as.Lhs) == len(as.Rhs) {
							for i, l := range as.Lhs {
								if id, ok := l.(*ast.Ident); ok && pk.Info.ObjectOf(id) == o && as.Rhs[i].Pos() < y.Pos() && !seen[as.Rhs[i]] {
									seen[as.Rhs[i]] = true
									addFromExpr(pk, encl, as.Rhs[i], depth+1)
								}
							}
						}
						return true
					})
				}
			}
			return true
		})
	}
	sites := 0
	for _, pk := range pkgs {
		for _, f := range pk.Files {
			for _, d := range f.Decls {
				fd, ok := d.(*ast.FuncDecl)
				if !ok || fd.Body == nil {
					continue
				}
				ast.Inspect(fd.Body, func(n ast.Node) bool {
					call, ok := n.(*ast.CallExpr)
					if !ok {
						return true
					}
					callee := an.CalleeFunc(pk.Info, call)
					if callee == nil || callee.Pkg() == nil || callee.Pkg().Path() != an.PkgResources || !strings.HasPrefix(callee.Name(), "New") {
						return true
					}
					sites++
					for _, a := range call.Args {
						addFromExpr(pk, fd, a, 0)
					}
					return true
				})
			}
		}
	}
	c.Count("resource constructor calls", sites)
	sort.SliceStable(work, func(i, j int) bool { return work[i].node.Pos() < work[j].node.Pos() })
	n := map[string]int{}
	for _, w := range work {
		var b *ast.BlockStmt
		switch x := w.node.(type) {
		case *ast.FuncLit:
			b = x.Body
		case *ast.FuncDecl:
			b = x.Body
		}
		if b == nil {
			continue
		}
		n[w.name]++
		key := w.name
		if _, isLit := w.node.(*ast.FuncLit); isLit {
			key = fmt.Sprintf("%s#%d", w.name, n[w.name])
		}
		bad := ""
		ast.Inspect(b, func(m ast.Node) bool {
			switch x := m.(type) {
			case *ast.Ident:
				if v, ok := w.pk.Info.Uses[x].(*types.Var); ok && v.Pkg() != nil && v.Parent() == v.Pkg().Scope() {
					if _, isMut := mutable[v]; isMut {
						bad = v.Name()
					}
				}
			case *ast.AssignStmt:
				if x.Tok != token.DEFINE {
					for _, l := range x.Lhs {
						if v := pkgVarRoot(w.pk.Info, l); v != nil {
							bad = v.Name()
						}
					}
				}
			}
			return true
		})
		c.Check(bad == "", key+":address-depends-on-its-arguments-only", w.node.Pos(), "no package-level variable that changes at run time is consulted",
			"the address computation uses the package-level variable "+bad+", which the program changes at run time: the address handed to the resource depends on what earlier calls (for another configuration, or another deployment in this process) left there")
	}
}
