package rules

func init() {
	// ---------------------------------------------------------------- locksvc (C15)
	const L = "LOCK-DECISION"
	specTable(
		specRow{rule: L, pair: "locksvc", unit: "AServer", label: "serverRespond", key: "grants-free-lock-to-requester", effect: "network[msg.from] := GrantMsg",
			cond: "msg.type = LockMsg /\\ q = <<>>", why: "a lock request is granted at once exactly when nobody holds or waits for the lock"},
		specRow{rule: L, pair: "locksvc", unit: "AServer", label: "serverRespond", key: "queues-every-requester", effect: "q := Append(q, msg.from)",
			cond: "msg.type = LockMsg", why: "every requester joins the queue at its tail (the head of the queue is the holder)"},
		specRow{rule: L, pair: "locksvc", unit: "AServer", label: "serverRespond", key: "unlock-removes-holder", effect: "q := Tail(q)",
			cond: "msg.type # LockMsg /\\ msg.type = UnlockMsg", why: "an unlock removes the holder, the head of the queue, and nothing else does"},
		specRow{rule: L, pair: "locksvc", unit: "AServer", label: "serverRespond", key: "passes-lock-to-next-in-queue", effect: "network[Head(q__new)] := GrantMsg",
			cond: "msg.type # LockMsg /\\ msg.type = UnlockMsg /\\ q__new # <<>>", why: "after an unlock the lock goes to the client that has waited longest, if there is one"},
		specRow{rule: L, pair: "locksvc", unit: "AServer", label: "serverRespond", key: "queue-changes-only-by-append-and-tail", effect: "q := _",
			cond: "msg.type = LockMsg \\/ msg.type = UnlockMsg", why: "the queue changes only on a lock request or an unlock"},
		specRow{rule: L, pair: "locksvc", unit: "AServer", label: "serverRespond", key: "grants-only-grant-messages", effect: "network[_] := _",
			cond: "(msg.type = LockMsg /\\ q = <<>>) \\/ (msg.type # LockMsg /\\ msg.type = UnlockMsg /\\ q__new # <<>>)", why: "the server sends nothing but the two grants"},
		specRow{rule: L, pair: "locksvc", unit: "AServer", label: "serverReceive", key: "serves-own-mailbox", effect: "msg := network[self]", why: "the server handles one message from its own mailbox per round"},
		specRow{rule: L, pair: "locksvc", unit: "AClient", label: "acquireLock", key: "requests-in-own-name", effect: "network[ServerID] := [from |-> self, type |-> LockMsg]", why: "a client asks the server for the lock in its own name"},
		specRow{rule: L, pair: "locksvc", unit: "AClient", label: "criticalSection", key: "enters-only-on-grant", effect: "assert", expr: "resp = GrantMsg", why: "a client enters its critical section only on a grant"},
		specRow{rule: L, pair: "locksvc", unit: "AClient", label: "criticalSection", key: "holds-after-grant", effect: "hasLock[self] := TRUE", why: "the client records that it holds the lock in the step that consumed the grant"},
		specRow{rule: L, pair: "locksvc", unit: "AClient", label: "acquireLock", key: "does-not-hold-before-grant", effect: "hasLock[_] := _", absent: true, why: "a client does not claim the lock before it was granted"},
		specRow{rule: L, pair: "locksvc", unit: "AClient", label: "unlock", key: "releases-then-tells-server", effect: "network[ServerID] := [from |-> self, type |-> UnlockMsg]", why: "the holder tells the server, in its own name, that it released the lock"},
		specRow{rule: L, pair: "locksvc", unit: "AClient", label: "unlock", key: "drops-lock", effect: "hasLock[self] := FALSE", why: "the client gives the lock up before (in the same step as) telling the server"},
		specRow{rule: L, pair: "locksvc", op: "ServerSet", body: "{ServerID}", why: "there is one server"},
	)
}

func init() {
	// ---------------------------------------------------------------- the other systems (C16)
	const S = "SYS-DECISION"
	// proxy
	specTable(
		specRow{rule: S, pair: "proxy", unit: "AProxy", label: "proxyRcvMsg", key: "accepts-only-the-awaited-reply", effect: "proxyResp := tmp",
			cond: "tmp.from = idx /\\ tmp.id = msg.id", why: "a reply is taken as the answer only if it comes from the backend being tried and answers the request in hand (a late reply of a backend already given up is dropped)"},
		specRow{rule: S, pair: "proxy", unit: "AProxy", label: "proxyRcvMsg", key: "retries-on-foreign-reply", effect: "goto proxyRcvMsg",
			cond: "tmp.from # idx \\/ tmp.id # msg.id", why: "any other reply is skipped and the proxy keeps waiting"},
		specRow{rule: S, pair: "proxy", unit: "AProxy", label: "proxyRcvMsg", key: "gives-up-only-on-detected-failure", effect: "idx := idx + 1",
			cond: "fd[idx]", why: "the proxy moves on to the next backend only when the failure detector reports the current one"},
		specRow{rule: S, pair: "proxy", unit: "AProxy", label: "serversLoop", key: "skips-only-detected-failures", effect: "idx := idx + 1",
			cond: "idx <= NUM_SERVERS /\\ fd[idx]", why: "a backend is skipped without being asked only when the failure detector reports it"},
		specRow{rule: S, pair: "proxy", unit: "AProxy", label: "serversLoop", key: "reports-failure-after-the-last-backend", effect: "goto sendMsgToClient",
			cond: "~(idx <= NUM_SERVERS)", why: "the proxy answers with the failure body only after every backend was tried"},
		specRow{rule: S, pair: "proxy", unit: "AProxy", label: "serversLoop", key: "asks-the-current-backend", effect: "proxyMsg := [from |-> ProxyID, to |-> idx, body |-> msg.body, id |-> msg.id, typ |-> PROXY_REQ_MSG_TYP]",
			cond: "idx <= NUM_SERVERS", why: "the request is forwarded to the backend being tried, tagged with the client's request id"},
		specRow{rule: S, pair: "proxy", unit: "AProxy", label: "proxyRcvMsg", key: "asserts-reply-provenance", effect: "assert",
			expr: "proxyResp__new.to = ProxyID /\\ proxyResp__new.from = idx /\\ proxyResp__new.id = msg.id /\\ proxyResp__new.typ = PROXY_RESP_MSG_TYP", why: "the accepted reply is asserted to be the awaited one"},
		specRow{rule: S, pair: "proxy", unit: "AProxy", label: "proxyLoop", key: "starts-with-failure-answer", effect: "proxyResp := [from |-> ProxyID, to |-> msg__new.from, body |-> FAIL, id |-> msg__new.id, typ |-> PROXY_RESP_MSG_TYP]",
			why: "until a backend answers, the answer is FAIL"},
		specRow{rule: S, pair: "proxy", unit: "AProxy", label: "proxyLoop", key: "starts-at-first-backend", effect: "idx := 1", why: "every request starts with the first backend"},
		specRow{rule: S, pair: "proxy", unit: "AProxy", label: "sendMsgToClient", key: "answers-the-requesting-client", effect: "resp := [from |-> ProxyID, to |-> msg.from, body |-> proxyResp.body, id |-> msg.id, typ |-> RESP_MSG_TYP]",
			why: "the client that asked gets the accepted reply's body under its own request id"},
		specRow{rule: S, pair: "proxy", unit: "AServer", label: "failLabel", key: "crash-is-reported", effect: "fd[self] := TRUE", why: "a crashed backend is reported by the (perfect) failure detector"},
		specRow{rule: S, pair: "proxy", unit: "AServer", label: "serverSendMsg", key: "answers-the-request-in-hand", effect: "resp := [from |-> self, to |-> msg.from, body |-> self, id |-> msg.id, typ |-> PROXY_RESP_MSG_TYP]",
			why: "a backend answers the proxy's request under the request's id"},
		specRow{rule: S, pair: "proxy", unit: "AClient", label: "clientRcvResp", key: "asserts-own-answer", effect: "assert",
			expr: "resp__new.to = self /\\ resp__new.id = reqId /\\ resp__new.from = ProxyID /\\ resp__new.typ = RESP_MSG_TYP", why: "a client asserts that what it received answers its current request"},
	)
	// distributed queue, load balancer
	specTable(
		specRow{rule: S, pair: "dqueue", unit: "AConsumer", label: "c1", key: "requests-in-own-name", effect: "net[PRODUCER] := self", why: "a consumer asks the producer for one item, naming itself"},
		specRow{rule: S, pair: "dqueue", unit: "AConsumer", label: "c2", key: "consumes-from-own-mailbox", effect: "proc := net[self]", why: "a consumer processes exactly what arrives in its own mailbox"},
		specRow{rule: S, pair: "dqueue", unit: "AProducer", label: "p1", key: "serves-one-request", effect: "requester := net[self]", why: "the producer takes one request at a time"},
		specRow{rule: S, pair: "dqueue", unit: "AProducer", label: "p2", key: "hands-next-item-to-the-requester", effect: "net[requester] := s", why: "each request is answered with the next item of the stream, sent to the consumer that asked"},
		specRow{rule: S, pair: "loadbalancer", unit: "ALoadBalancer", label: "rcvMsg", key: "asserts-request-type", effect: "assert", expr: "msg__new.message_type = GET_PAGE", why: "only page requests reach the balancer"},
		specRow{rule: S, pair: "loadbalancer", unit: "ALoadBalancer", label: "sendServer", key: "round-robin", effect: "next := (next % NUM_SERVERS) + 1", why: "requests are spread over the servers 1..NUM_SERVERS in turn"},
		specRow{rule: S, pair: "loadbalancer", unit: "ALoadBalancer", label: "sendServer", key: "forwards-to-exactly-one-server", effect: "mailboxes[next__new] := [message_id |-> next__new, client_id |-> msg.client_id, path |-> msg.path]",
			why: "each request is forwarded once, to the chosen server, carrying the client's id"},
		specRow{rule: S, pair: "loadbalancer", unit: "AServer", label: "sendPage", key: "answers-the-client-that-asked", effect: "mailboxes[msg.client_id] := file_system[msg.path]", why: "the server sends the page straight to the requesting client"},
		specRow{rule: S, pair: "loadbalancer", unit: "AClient", label: "clientRequest", key: "asks-in-own-name", effect: "req := [message_type |-> GET_PAGE, client_id |-> self, path |-> instream]", why: "a client's request names the client"},
		specRow{rule: S, pair: "loadbalancer", unit: "AClient", label: "clientReceive", key: "reads-own-mailbox", effect: "resp := mailboxes[self]", why: "a client takes its answer from its own mailbox"},
	)
	// shared counter, grow-only counter
	specTable(
		specRow{rule: S, pair: "shcounter", unit: "ANode", label: "update", key: "increments-once", effect: "cntr := cntr + 1", why: "every node adds exactly one"},
		specRow{rule: S, pair: "shcounter", unit: "ANode", label: "wait", key: "waits-for-the-total", effect: "await", expr: "cntr = NUM_NODES", why: "a node finishes when the counter equals the number of nodes"},
		specRow{rule: S, pair: "gcounter", unit: "ANode", label: "update", key: "increments-own-component", effect: "cntr[self] := 1", why: "a node increments through its own replica"},
		specRow{rule: S, pair: "gcounter", unit: "ANode", label: "wait", key: "waits-for-the-total", effect: "await", expr: "cntr[self] = NUM_NODES", why: "a node finishes when its replica has seen every increment"},
	)
	// nested CRDT resource
	const commitReq = "req__new.tpe # READ_REQ /\\ req__new.tpe # WRITE_REQ /\\ req__new.tpe # ABORT_REQ /\\ req__new.tpe # PRECOMMIT_REQ /\\ req__new.tpe = COMMIT_REQ"
	const abortReq = "req__new.tpe # READ_REQ /\\ req__new.tpe # WRITE_REQ /\\ req__new.tpe = ABORT_REQ"
	const writeReq = "req__new.tpe # READ_REQ /\\ req__new.tpe = WRITE_REQ"
	specTable(
		specRow{rule: S, pair: "nestedcrdtimpl", unit: "ACRDTResource", label: "receiveReq", key: "snapshot-at-first-touch", effect: "readState := state",
			cond: "(req__new.tpe = READ_REQ \\/ (" + writeReq + ")) /\\ ~criticalSectionInProgress", why: "the working copy is taken from the replica state at the first read or write of a section, and only then"},
		specRow{rule: S, pair: "nestedcrdtimpl", unit: "ACRDTResource", label: "receiveReq", key: "commit-merges-working-copy-into-state", effect: "state := COMBINE_FN(state, readState)",
			cond: commitReq, why: "a commit merges the section's working copy into the replica state - the state keeps whatever peers delivered meanwhile, so it never goes backwards"},
		specRow{rule: S, pair: "nestedcrdtimpl", unit: "ACRDTResource", label: "receiveReq", key: "peer-state-is-merged", effect: "state := COMBINE_FN(updateVal, state)",
			why: "state received from a peer is merged into the replica state"},
		specRow{rule: S, pair: "nestedcrdtimpl", unit: "ACRDTResource", label: "receiveReq", key: "state-changes-only-by-merging", effect: "state := _",
			among: []string{"COMBINE_FN(state, readState)", "COMBINE_FN(updateVal, state)"}, why: "the replica state is only ever merged into (by a commit or a peer update)"},
		specRow{rule: S, pair: "nestedcrdtimpl", unit: "ACRDTResource", label: "receiveReq", key: "commit-arms-broadcast-on-change", effect: "remainingPeersToUpdate := peers",
			cond: "(" + commitReq + ") /\\ state # readState", why: "a commit that changed the state schedules its delivery to every peer"},
		specRow{rule: S, pair: "nestedcrdtimpl", unit: "ACRDTResource", label: "receiveReq", key: "broadcasts-committed-state", effect: "network[target] := state",
			cond: "timer", why: "what is sent to a peer is the committed replica state, never the working copy"},
		specRow{rule: S, pair: "nestedcrdtimpl", unit: "ACRDTResource", label: "receiveReq", key: "ticks-off-served-peer", effect: "remainingPeersToUpdate := remainingPeersToUpdate \\ {target}",
			cond: "timer", why: "only the peer just served is ticked off"},
		specRow{rule: S, pair: "nestedcrdtimpl", unit: "ACRDTResource", label: "receiveReq", key: "section-ends-on-abort-or-commit", effect: "criticalSectionInProgress := FALSE",
			cond: "(" + abortReq + ") \\/ (" + commitReq + ")", why: "a section ends exactly at abort or commit"},
		specRow{rule: S, pair: "nestedcrdtimpl", unit: "ACRDTResource", label: "receiveReq", key: "abort-drops-working-copy", effect: "readState := ZERO_VALUE",
			cond: "(" + abortReq + ") \\/ (" + commitReq + ")", why: "the working copy is discarded at abort and after a commit folded it into the state"},
		specRow{rule: S, pair: "nestedcrdtimpl", unit: "ACRDTResource", label: "receiveReq", key: "read-serves-working-copy", effect: "out[self] := [tpe |-> READ_ACK, value |-> VIEW_FN(readState__new)]",
			cond: "req__new.tpe = READ_REQ", why: "a read inside a section sees the section's own working copy"},
	)
}

func init() {
	// ---------------------------------------------------------------- primary-backup store (C14)
	const P = "PB-DECISION"
	const put = "req.typ # GET_REQ /\\ req.typ = PUT_REQ"
	const sync = "req.typ # GET_REQ /\\ req.typ # PUT_REQ /\\ req.typ = SYNC_REQ"
	const newer = "req.body.versionNumber > lastPutBody.versionNumber"
	r := func(unit, label, key, effect, cond, why string) specRow {
		return specRow{rule: P, pair: "pbkvs", unit: unit, label: label, key: key, effect: effect, cond: cond, why: why}
	}
	specTable(
		r("AReplica", "rcvMsg", "new-primary-syncs-before-serving", "goto syncPrimary", "primary = self /\\ shouldSync",
			"a replica that became primary and may have missed updates synchronises before it takes the next request"),
		r("AReplica", "rcvMsg", "serves-clients-only-as-primary", "goto handlePrimary", "~(primary = self /\\ shouldSync) /\\ primary = self /\\ req__new.srcTyp = CLIENT_SRC",
			"client requests are served by the primary only"),
		r("AReplica", "syncPrimary", "sync-runs-once-per-takeover", "shouldSync := FALSE", "primary = self /\\ shouldSync", "the synchronisation round is started exactly when this replica is primary and has to synchronise"),
		r("AReplica", "syncPrimary", "sync-asks-everyone", "goto sndSyncReqLoop", "primary = self /\\ shouldSync", "the new primary asks every other replica for its latest version"),
		r("AReplica", "sndSyncReqLoop", "sync-requests-reach-every-replica", "goto rcvSyncRespLoop", "~(idx <= NUM_REPLICAS)", "answers are collected only after every replica was asked"),
		r("AReplica", "sndSyncReqLoop", "sync-request-carries-own-version", "repReq := [from |-> self, to |-> idx, body |-> lastPutBody, srcTyp |-> PRIMARY_SRC, typ |-> SYNC_REQ, id |-> 3]", "idx <= NUM_REPLICAS /\\ idx # self",
			"every other replica is sent the primary's own latest version"),
		r("AReplica", "rcvSyncRespLoop", "serves-only-after-all-live-replicas-answered", "goto rcvMsg", "~(Cardinality(replicaSet) > 0)", "the new primary starts serving only when every replica answered or is known to have failed"),
		r("AReplica", "rcvSyncRespLoop", "adopts-newer-version", "lastPutBody := repResp__new.body", "Cardinality(replicaSet) > 0 /\\ repResp__new.body.versionNumber > lastPutBody.versionNumber",
			"a strictly newer version held by a backup is adopted"),
		r("AReplica", "rcvSyncRespLoop", "stores-newer-version", "fs[self][repResp__new.body.key] := repResp__new.body.value", "Cardinality(replicaSet) > 0 /\\ repResp__new.body.versionNumber > lastPutBody.versionNumber",
			"... and written to the store"),
		r("AReplica", "rcvSyncRespLoop", "restarts-after-adopting", "goto sndSyncReqLoop", "Cardinality(replicaSet) > 0 /\\ repResp__new.body.versionNumber > lastPutBody.versionNumber",
			"after adopting a newer version the round is repeated so that every replica gets it"),
		r("AReplica", "rcvSyncRespLoop", "gives-up-only-on-failed-replica", "replicaSet := replicaSet \\ {replica__new}", "Cardinality(replicaSet) > 0 /\\ fd[replica__new] /\\ netLen[<<self, RESP_INDEX>>] = 0",
			"a replica is no longer waited for only when it is detected as failed and nothing from it is still in flight"),
		r("AReplica", "handleBackup", "backup-applies-put", "fs[self][req.body.key] := req.body.value", "("+put+") \\/ ("+sync+" /\\ "+newer+")",
			"a backup stores a replicated Put, and a synchronisation value only if it is strictly newer than what it has"),
		r("AReplica", "handleBackup", "backup-remembers-version", "lastPutBody := req.body", "("+put+") \\/ ("+sync+" /\\ "+newer+")", "... and remembers its version"),
		r("AReplica", "handleBackup", "backup-must-sync-if-promoted", "shouldSync := TRUE", "("+put+") \\/ ("+sync+")", "a replica that acted as a backup has to synchronise if it later becomes primary"),
		r("AReplica", "handleBackup", "sync-answer-is-own-latest", "respBody := lastPutBody__new", sync, "a synchronisation request is answered with the backup's latest version"),
		r("AReplica", "handlePrimary", "put-gets-next-version", "lastPutBody := [versionNumber |-> lastPutBody.versionNumber+1, key |-> req.body.key, value |-> req.body.value]", put,
			"every Put gets the next version number"),
		r("AReplica", "handlePrimary", "put-stored-at-primary", "fs[self][req.body.key] := req.body.value", put, "the primary stores the Put"),
		r("AReplica", "handlePrimary", "put-replicates-to-all-others", "replicaSet := REPLICA_SET \\ {self}", put, "a Put is acknowledged by every other replica: the set to wait for is all of them"),
		r("AReplica", "handlePrimary", "put-replication-starts-at-first", "idx := 1", put, "... and replication starts with the first replica"),
		r("AReplica", "handlePrimary", "put-is-replicated-before-answer", "goto sndReplicaReqLoop", "req.typ # GET_REQ", "anything but a Get goes through replication before it is answered"),
		r("AReplica", "handlePrimary", "get-answered-directly", "goto sndResp", "req.typ = GET_REQ", "only a Get is answered without replication"),
		r("AReplica", "sndReplicaReqLoop", "replicates-to-every-replica", "goto rcvReplicaRespLoop", "~(idx <= NUM_REPLICAS)", "acknowledgements are collected only after the Put was sent to every replica"),
		r("AReplica", "sndReplicaReqLoop", "replication-carries-the-put", "repReq := [from |-> self, to |-> idx, body |-> lastPutBody, srcTyp |-> PRIMARY_SRC, typ |-> PUT_REQ, id |-> req.id]", "idx <= NUM_REPLICAS /\\ idx # self",
			"every other replica is sent the versioned Put"),
		r("AReplica", "rcvReplicaRespLoop", "answers-only-after-all-live-backups-acked", "goto sndResp", "~(Cardinality(replicaSet) > 0)", "the primary answers the client only when every backup acknowledged or is known to have failed"),
		r("AReplica", "rcvReplicaRespLoop", "ack-ticks-off-its-sender", "replicaSet := replicaSet \\ {repResp__new.from}", "Cardinality(replicaSet) > 0", "an acknowledgement ticks off the backup it came from"),
		r("AReplica", "rcvReplicaRespLoop", "gives-up-only-on-failed-backup", "replicaSet := replicaSet \\ {replica__new}", "Cardinality(replicaSet) > 0 /\\ fd[replica__new] /\\ netLen[<<self, RESP_INDEX>>] = 0",
			"a backup is no longer waited for only when it is detected as failed and nothing from it is still in flight"),
		r("AReplica", "sndResp", "answers-the-requesting-client", "resp := [from |-> self, to |-> req.from, body |-> respBody, srcTyp |-> PRIMARY_SRC, typ |-> respTyp, id |-> req.id]", "", "the client that asked is answered under its request id"),
		r("AReplica", "failLabel", "crash-is-detected", "fd[self] := TRUE", "", "a crashed replica is reported by the failure detector"),
		r("AReplica", "failLabel", "crash-leaves-the-election", "primary := self", "", "a crashed replica is withdrawn from the leader election"),
		r("AClient", "rcvResp", "drops-stale-responses", "goto rcvResp", "resp__new.id # idx", "a response to an earlier request is skipped"),
		r("AClient", "rcvResp", "delivers-only-current-response", "output := resp__new.body.content", "~(resp__new.id # idx) /\\ (msg.typ = PUT_REQ \\/ (msg.typ # PUT_REQ /\\ msg.typ = GET_REQ))", "only the response to the current request is delivered"),
		r("AClient", "rcvResp", "retries-only-on-failed-primary", "goto sndReq", "fd[replica] /\\ netLen[<<self, RESP_INDEX>>] = 0", "the request is re-sent only when the replica it went to is detected as failed and no response is in flight"),
		r("AClient", "sndReq", "asks-the-elected-primary", "replica := primary", "", "a request goes to the replica the election names"),
		r("AClient", "clientLoop", "numbers-requests", "idx := idx + 1", "", "every request gets a fresh number"),
	)
	specTable(
		specRow{rule: P, pair: "pbkvs", unit: "AReplica", label: "handleBackup", key: "asserts-versions-grow", effect: "assert", expr: "req.body.versionNumber >= lastPutBody.versionNumber", cond: put, why: "replicated Puts arrive with non-decreasing versions"},
		specRow{rule: P, pair: "pbkvs", unit: "AReplica", label: "rcvReplicaRespLoop", key: "asserts-ack-provenance", effect: "assert", cond: "Cardinality(replicaSet) > 0",
			expr: "(repResp__new.from \\in replicaSet \\/ fd[repResp__new.from]) /\\ repResp__new.to = self /\\ repResp__new.body = ACK_MSG_BODY /\\ repResp__new.srcTyp = BACKUP_SRC /\\ repResp__new.typ = PUT_RESP /\\ repResp__new.id = req.id",
			why:  "what the primary counts as an acknowledgement is an acknowledgement of this Put from a backup it waits for"},
	)
}

func init() {
	// ---------------------------------------------------------------- Raft key-value store (C08, C09)
	const R = "RAFT-DECISION"
	const rvq = "m.mtype = RequestVoteRequest"
	const rvp = "m.mtype # RequestVoteRequest /\\ m.mtype = RequestVoteResponse"
	const apq = "m.mtype # RequestVoteRequest /\\ m.mtype # RequestVoteResponse /\\ m.mtype = AppendEntriesRequest"
	const app = "m.mtype # RequestVoteRequest /\\ m.mtype # RequestVoteResponse /\\ m.mtype # AppendEntriesRequest /\\ m.mtype = AppendEntriesResponse"
	const cli = "m.mtype # RequestVoteRequest /\\ m.mtype # RequestVoteResponse /\\ m.mtype # AppendEntriesRequest /\\ m.mtype # AppendEntriesResponse /\\ (m.mtype = ClientPutRequest \\/ m.mtype = ClientGetRequest)"
	const anyRaftMsg = "(m.mtype = RequestVoteRequest \\/ m.mtype = RequestVoteResponse \\/ m.mtype = AppendEntriesRequest \\/ m.mtype = AppendEntriesResponse)"
	const rejectAE = "(m.mterm < currentTerm__new[i] \\/ (m.mterm = currentTerm__new[i] /\\ state__new[i] = Follower /\\ ~logOK))"
	op := func(name, body, why string) specRow {
		return specRow{rule: R, pair: "raftkvs", op: name, body: body, why: why}
	}
	r := func(unit, label, key, effect, cond, why string) specRow {
		return specRow{rule: R, pair: "raftkvs", unit: unit, label: label, key: key, effect: effect, cond: cond, why: why}
	}
	x := func(unit, label, key, effect, expr, cond, why string) specRow {
		return specRow{rule: R, pair: "raftkvs", unit: unit, label: label, key: key, effect: effect, expr: expr, cond: cond, why: why}
	}
	specTable(
		op("isQuorum", "Cardinality(s) * 2 > NumServers", "a quorum is a strict majority of the servers: any two quorums intersect"),
		op("ServerSet", "1..NumServers", "the servers are 1..NumServers"),
		op("Nil", "0", "Nil is not a server id"),
		op("LastTerm", "IF Len(xlog) = 0 THEN 0 ELSE xlog[Len(xlog)].term", "the term of the last log entry (0 for an empty log)"),
		op("FindMaxAgreeIndex", "FindMaxAgreeIndexRec(logLocal, i, matchIndex, Len(logLocal))", "the search for the highest replicated index starts at the end of the leader's log"),
		op("FindMaxAgreeIndexRec", "IF index = 0 THEN Nil ELSE IF isQuorum({i} \\cup {k \\in ServerSet : matchIndex[k] >= index}) THEN index ELSE FindMaxAgreeIndexRec(logLocal, i, matchIndex, index - 1)",
			"an index is agreed when the leader and the servers whose match index reaches it form a quorum"),
		op("ApplyLogEntry", "LET cmd == xentry.cmd IN IF cmd.type = Put THEN <<(cmd.key :> cmd.value) @@ xsm, xsmDomain \\cup {cmd.key}>> ELSE <<xsm, xsmDomain>>", "a Put overwrites its key, a Get changes nothing"),
		op("ApplyLog", "IF start > end THEN <<xsm, xsmDomain>> ELSE LET result == ApplyLogEntry(xlog[start], xsm, xsmDomain) IN ApplyLog(xlog, start+1, end, result[1], result[2])", "entries are applied in log order, each exactly once"),
		op("MaxAcc", "IF s = {} THEN e1 ELSE LET e2 == CHOOSE e2 \\in s : TRUE IN MaxAcc(s \\ { e2 }, IF e2 > e1 THEN e2 ELSE e1)", "Max is the maximum"),
		op("Max", "LET e == CHOOSE e \\in s : TRUE IN MaxAcc(s \\ { e }, e)", "Max is the maximum"),
	)
	specTable(
		// any Raft message: term adoption
		r("AServer", "handleMsg", "adopts-higher-term", "currentTerm[self] := m.mterm", anyRaftMsg+" /\\ m.mterm > currentTerm[self]", "a server adopts a higher term from any Raft message, and only a higher one"),
		r("AServer", "handleMsg", "higher-term-forgets-vote", "votedFor[self] := Nil", anyRaftMsg+" /\\ m.mterm > currentTerm[self]", "the vote is forgotten exactly when the term grows (one vote per term)"),
		r("AServer", "handleMsg", "higher-term-steps-down", "state[self] := Follower", anyRaftMsg+" /\\ m.mterm > currentTerm[self]", "a server that sees a higher term steps down"),
		// RequestVote
		x("AServer", "handleMsg", "vote-log-up-to-date", "with logOK", "m.mlastLogTerm > LastTerm(log[i]) \\/ (m.mlastLogTerm = LastTerm(log[i]) /\\ m.mlastLogIndex >= Len(log[i]))", rvq,
			"a candidate's log is up to date if its last term is higher, or equal with a log at least as long as the voter's whole log"),
		x("AServer", "handleMsg", "vote-grant-condition", "with grant", "m.mterm = currentTerm__new[i] /\\ logOK /\\ votedFor__new[self] \\in {Nil, j}", rvq,
			"a vote is granted for the current term, to an up-to-date candidate, by a server that has not voted for anyone else in this term"),
		r("AServer", "handleMsg", "records-vote", "votedFor[i] := j", rvq+" /\\ grant", "the vote is recorded exactly when it is granted"),
		r("AServer", "handleMsg", "vote-reply-tells-the-truth", "net[j] := [mtype |-> RequestVoteResponse, mterm |-> currentTerm__new[i], mvoteGranted |-> grant, msource |-> i, mdest |-> j]", rvq,
			"the reply carries the voter's term and exactly the decision taken"),
		// RequestVoteResponse
		r("AServer", "handleMsg", "counts-only-current-term-votes", "votesGranted[i] := votesGranted[i] \\cup {j}", rvp+" /\\ ~(m.mterm < currentTerm__new[self]) /\\ m.mvoteGranted",
			"a granted vote is counted unless it is from an older term"),
		r("AServer", "handleMsg", "becomes-leader-on-quorum", "becomeLeaderCh[i] := TRUE", rvp+" /\\ ~(m.mterm < currentTerm__new[self]) /\\ m.mvoteGranted /\\ state__new[i] = Candidate /\\ isQuorum(votesGranted__new[i])",
			"leadership is claimed only by a candidate whose granted votes form a quorum"),
		// AppendEntries request
		x("AServer", "handleMsg", "append-log-consistency", "with logOK", "m.mprevLogIndex = 0 \\/ (m.mprevLogIndex > 0 /\\ m.mprevLogIndex <= Len(log[i]) /\\ m.mprevLogTerm = log[i][m.mprevLogIndex].term)", apq,
			"new entries are accepted only if the follower's log contains the leader's previous entry (same index, same term)"),
		r("AServer", "handleMsg", "append-rejects", "net[j] := [mtype |-> AppendEntriesResponse, mterm |-> currentTerm__new[i], msuccess |-> FALSE, mmatchIndex |-> 0, msource |-> i, mdest |-> j]", apq+" /\\ "+rejectAE,
			"a request from an older term, or one that fails the consistency check, is refused"),
		r("AServer", "handleMsg", "append-truncates-to-prev", "log[i] := SubSeq(log[i], 1, m.mprevLogIndex)", apq+" /\\ ~"+rejectAE, "an accepted request truncates the log right behind the agreed prefix ..."),
		r("AServer", "handleMsg", "append-appends-entries", "log[i] := log__new[i] \\o m.mentries", apq+" /\\ ~"+rejectAE, "... and appends the leader's entries"),
		r("AServer", "handleMsg", "append-advances-commit", "commitIndex[i] := Max({commitIndex[i], m.mcommitIndex})", apq+" /\\ ~"+rejectAE, "the follower's commit index follows the leader's and never decreases"),
		r("AServer", "handleMsg", "append-acks-match-index", "net[j] := [mtype |-> AppendEntriesResponse, mterm |-> currentTerm__new[i], msuccess |-> TRUE, mmatchIndex |-> m.mprevLogIndex + Len(m.mentries), msource |-> i, mdest |-> j]",
			apq+" /\\ ~"+rejectAE, "the acknowledgement reports exactly how far the follower's log now matches"),
		x("AServer", "handleMsg", "append-asserts-accept-condition", "assert", "m.mterm = currentTerm__new[i] /\\ state__new[i] = Follower /\\ logOK", apq+" /\\ ~"+rejectAE, "entries are accepted only from the current term's leader, by a follower, after the consistency check"),
		r("AServer", "handleMsg", "candidate-yields-to-leader", "state[i] := Follower", apq+" /\\ m.mterm = currentTerm__new[i] /\\ state__new[i] = Candidate", "a candidate that hears from the leader of its term steps down"),
		// AppendEntries response
		r("AServer", "handleMsg", "match-index-from-ack", "matchIndex[i] := [matchIndex[i] EXCEPT ![j] = m.mmatchIndex]", app+" /\\ ~(m.mterm < currentTerm__new[self]) /\\ m.msuccess",
			"the leader believes an entry replicated on j only on j's own positive acknowledgement of the current term"),
		r("AServer", "handleMsg", "next-index-from-ack", "nextIndex[i] := [nextIndex[i] EXCEPT ![j] = m.mmatchIndex + 1]", app+" /\\ ~(m.mterm < currentTerm__new[self]) /\\ m.msuccess", "after a positive acknowledgement the next entry to send follows the matched prefix"),
		r("AServer", "handleMsg", "next-index-backs-off", "nextIndex[i] := [nextIndex[i] EXCEPT ![j] = Max({nextIndex[i][j]-1, 1})]", app+" /\\ ~(m.mterm < currentTerm__new[self]) /\\ ~m.msuccess", "after a refusal the leader retries one entry earlier, never below 1"),
		// client requests
		r("AServer", "handleMsg", "only-leader-appends-client-entries", "log[self] := Append(log[self], entry)", cli+" /\\ state[self] = Leader", "a client command enters the log only at the leader, at the end (leader append-only)"),
		x("AServer", "handleMsg", "entry-carries-term-and-client", "with entry", "[term |-> currentTerm[self], cmd |-> m.mcmd, client |-> m.msource]", cli+" /\\ state[self] = Leader", "the entry records the leader's term and the client to answer"),
		specRow{rule: R, pair: "raftkvs", unit: "AServer", label: "handleMsg", key: "log-changes-only-by-truncate-append", effect: "log[_] := _",
			among: []string{"SubSeq(log[i], 1, m.mprevLogIndex)", "log__new[i] \\o m.mentries", "Append(log[self], entry)"}, why: "the log changes only by the follower's truncate / append and the leader's append"},
		// elections
		x("AServerRequestVote", "serverRequestVoteLoop", "election-needs-timeout", "await", "leaderTimeout", "", "an election starts only after the leader timed out"),
		x("AServerRequestVote", "serverRequestVoteLoop", "only-followers-and-candidates-stand", "await", "state[srvId] \\in {Follower, Candidate}", "", "a leader does not start an election"),
		r("AServerRequestVote", "serverRequestVoteLoop", "election-increments-term", "currentTerm[i] := currentTerm[i] + 1", "", "every election is for a new term"),
		r("AServerRequestVote", "serverRequestVoteLoop", "candidate-votes-for-itself", "votedFor[i] := i", "", "the candidate votes for itself (and so cannot vote for another candidate of that term)"),
		r("AServerRequestVote", "serverRequestVoteLoop", "candidate-counts-own-vote-only", "votesGranted[i] := {i}", "", "vote counting restarts with the candidate's own vote"),
		r("AServerRequestVote", "requestVoteLoop", "advertises-own-log", "net[idx] := [mtype |-> RequestVoteRequest, mterm |-> currentTerm[srvId], mlastLogTerm |-> LastTerm(log[srvId]), mlastLogIndex |-> Len(log[srvId]), msource |-> srvId, mdest |-> idx]",
			"idx <= NumServers /\\ idx # srvId", "the candidate advertises its current term and the last term and length of its own log to every other server"),
		x("AServerBecomeLeader", "serverBecomeLeaderLoop", "leader-was-candidate", "await", "state[srvId] = Candidate", "becomeLeaderCh[srvId]", "only a candidate becomes leader"),
		x("AServerBecomeLeader", "serverBecomeLeaderLoop", "leader-has-quorum", "await", "isQuorum(votesGranted[srvId])", "becomeLeaderCh[srvId]", "... and only with a quorum of votes"),
		r("AServerBecomeLeader", "serverBecomeLeaderLoop", "becomes-leader", "state[i] := Leader", "becomeLeaderCh[srvId]", "the candidate becomes leader"),
		r("AServerBecomeLeader", "serverBecomeLeaderLoop", "new-leader-assumes-nothing-replicated", "matchIndex[i] := [j \\in ServerSet |-> 0]", "becomeLeaderCh[srvId]", "a new leader assumes nothing about what its followers hold"),
		r("AServerBecomeLeader", "serverBecomeLeaderLoop", "new-leader-starts-at-own-log-end", "nextIndex[i] := [j \\in ServerSet |-> Len(log[i]) + 1]", "becomeLeaderCh[srvId]", "... and starts replication at the end of its own log"),
		// replication
		x("AServerAppendEntries", "appendEntriesLoop", "prev-index-precedes-next", "with prevLogIndex", "nextIndex[srvId][idx] - 1", "state[srvId] = Leader /\\ idx <= NumServers /\\ idx # srvId", "the consistency check is about the entry right before the ones sent"),
		x("AServerAppendEntries", "appendEntriesLoop", "prev-term-from-own-log", "with prevLogTerm", "IF prevLogIndex > 0 THEN log[srvId][prevLogIndex].term ELSE 0", "state[srvId] = Leader /\\ idx <= NumServers /\\ idx # srvId", "... and carries that entry's term from the leader's own log"),
		x("AServerAppendEntries", "appendEntriesLoop", "sends-own-log-suffix", "with entries", "SubSeq(log[srvId], nextIndex[srvId][idx], Len(log[srvId]))", "state[srvId] = Leader /\\ idx <= NumServers /\\ idx # srvId", "what is sent is the suffix of the leader's own log from the follower's next index"),
		r("AServerAppendEntries", "appendEntriesLoop", "append-request", "net[idx] := [mtype |-> AppendEntriesRequest, mterm |-> currentTerm[srvId], mprevLogIndex |-> prevLogIndex, mprevLogTerm |-> prevLogTerm, mentries |-> entries, mcommitIndex |-> commitIndex[srvId], msource |-> srvId, mdest |-> idx]",
			"state[srvId] = Leader /\\ idx <= NumServers /\\ idx # srvId", "only a leader replicates, to every other server, under its current term and with its commit index"),
		x("AServerAppendEntries", "serverAppendEntriesLoop", "only-leader-replicates", "await", "state[srvId] = Leader", "appendEntriesCh[srvId]", "replication rounds are run by the leader"),
		// commit and apply
		x("AServerAdvanceCommitIndex", "serverAdvanceCommitIndexLoop", "only-leader-advances-commit", "await", "state[srvId] = Leader", "", "only the leader decides what is committed"),
		x("AServerAdvanceCommitIndex", "serverAdvanceCommitIndexLoop", "agreement-from-match-indices", "with maxAgreeIndex", "FindMaxAgreeIndex(log[i], i, matchIndex[i])", "", "agreement is computed from the leader's own log and match indices"),
		x("AServerAdvanceCommitIndex", "serverAdvanceCommitIndexLoop", "commits-only-current-term-entries", "with nCommitIndex", "IF maxAgreeIndex # Nil /\\ log[i][maxAgreeIndex].term = currentTerm[i] THEN maxAgreeIndex ELSE commitIndex[i]", "",
			"an index is committed by counting replicas only if its entry is from the leader's current term"),
		x("AServerAdvanceCommitIndex", "serverAdvanceCommitIndexLoop", "commit-index-never-decreases", "assert", "newCommitIndex__new >= commitIndex[i]", "", "the commit index never decreases"),
		r("AServerAdvanceCommitIndex", "applyLoop", "applies-one-by-one-up-to-commit", "commitIndex[srvId] := commitIndex[srvId] + 1", "commitIndex[srvId] < newCommitIndex", "entries are applied one at a time, up to the new commit index"),
		x("AServerAdvanceCommitIndex", "applyLoop", "applies-at-the-advanced-commit-index", "with k", "commitIndex__new[i]", "commitIndex[srvId] < newCommitIndex", "the index applied is the commit index just advanced by one (not the target index: entries in between would be skipped)"),
		x("AServerAdvanceCommitIndex", "applyLoop", "applies-the-entry-at-commit-index", "with entry", "log[i][k]", "commitIndex[srvId] < newCommitIndex", "the entry applied is the one at the commit index"),
		r("AServerAdvanceCommitIndex", "applyLoop", "put-updates-store", "sm[i] := (cmd.key :> cmd.value) @@ sm[i]", "commitIndex[srvId] < newCommitIndex /\\ cmd.type = Put", "a Put, and only a Put, changes the store when it is applied"),
		r("AServerAdvanceCommitIndex", "applyLoop", "answers-applied-entry", "net[entry.client] := [mtype |-> respType, msuccess |-> TRUE, mresponse |-> [idx |-> cmd.idx, key |-> cmd.key, value |-> IF reqOk THEN sm__new[i][cmd.key] ELSE Nil, ok |-> reqOk], mleaderHint |-> i, msource |-> i, mdest |-> entry.client]",
			"commitIndex[srvId] < newCommitIndex", "a client is answered when - and only when - its entry is applied at the leader, with the request's own index and the value the store then holds"),
		// client
		r("AClient", "clientLoop", "numbers-requests", "reqIdx := reqIdx + 1", "", "every client request gets a fresh index"),
		r("AClient", "rcvResp", "drops-stale-responses", "goto rcvResp", "resp__new.mresponse.idx # reqIdx", "a response to an earlier request (a duplicate, or a late answer to a retried request) is dropped"),
		r("AClient", "rcvResp", "delivers-only-successful-current-response", "respCh := resp__new", "~(resp__new.mresponse.idx # reqIdx) /\\ ~~resp__new.msuccess", "only a successful response to the current request is handed to the application"),
		r("AClient", "rcvResp", "retries-on-refusal-or-timeout", "goto sndReq", "(~(resp__new.mresponse.idx # reqIdx) /\\ ~resp__new.msuccess) \\/ ((fd[leader] /\\ netLen[self] = 0) \\/ timeout)", "the request is re-sent when the server refused it (not the leader) or the leader is suspected / the request timed out"),
		x("AClient", "rcvResp", "asserts-response-matches-request", "assert", "resp__new.mresponse.idx = reqIdx /\\ resp__new.mresponse.key = req.key", "~(resp__new.mresponse.idx # reqIdx) /\\ ~~resp__new.msuccess", "what is delivered answers the current request for the current key"),
	)
}

func init() {
	// rows added from the survivors of the specification sweep (thorough tier)
	const R = "RAFT-DECISION"
	const apq = "m.mtype # RequestVoteRequest /\\ m.mtype # RequestVoteResponse /\\ m.mtype = AppendEntriesRequest"
	const rvp = "m.mtype # RequestVoteRequest /\\ m.mtype = RequestVoteResponse"
	const app = "m.mtype # RequestVoteRequest /\\ m.mtype # RequestVoteResponse /\\ m.mtype # AppendEntriesRequest /\\ m.mtype = AppendEntriesResponse"
	const cli = "m.mtype # RequestVoteRequest /\\ m.mtype # RequestVoteResponse /\\ m.mtype # AppendEntriesRequest /\\ m.mtype # AppendEntriesResponse /\\ (m.mtype = ClientPutRequest \\/ m.mtype = ClientGetRequest)"
	const rejectAE = "(m.mterm < currentTerm__new[i] \\/ (m.mterm = currentTerm__new[i] /\\ state__new[i] = Follower /\\ ~logOK))"
	op := func(name, body, why string) specRow {
		return specRow{rule: R, pair: "raftkvs", op: name, body: body, why: why}
	}
	r := func(unit, label, key, effect, cond, why string) specRow {
		return specRow{rule: R, pair: "raftkvs", unit: unit, label: label, key: key, effect: effect, cond: cond, why: why}
	}
	x := func(unit, label, key, effect, expr, cond, why string) specRow {
		return specRow{rule: R, pair: "raftkvs", unit: unit, label: label, key: key, effect: effect, expr: expr, cond: cond, why: why}
	}
	specTable(
		op("ServerRequestVoteSet", "(1*NumServers+1)..(2*NumServers)", "the ids of the vote-requesting archetypes follow the servers' ids block by block"),
		op("ServerAppendEntriesSet", "(2*NumServers+1)..(3*NumServers)", "ids of the replicating archetypes"),
		op("ServerAdvanceCommitIndexSet", "(3*NumServers+1)..(4*NumServers)", "ids of the committing archetypes"),
		op("ServerBecomeLeaderSet", "(4*NumServers+1)..(5*NumServers)", "ids of the leadership archetypes"),
		op("ClientSet", "(6*NumServers+1)..(6*NumServers+NumClients)", "client ids lie beyond every server-side id"),
		x("AServer", "serverLoop", "handles-only-own-messages", "assert", "m__new.mdest = self", "", "a server handles messages addressed to it"),
		x("AServer", "handleMsg", "request-never-ahead-of-adopted-term", "assert", "m.mterm <= currentTerm__new[i]", "(m.mtype = RequestVoteRequest) \\/ ("+apq+")", "after term adoption a request is never ahead of the server"),
		x("AServer", "handleMsg", "processed-response-is-of-current-term", "assert", "m.mterm = currentTerm__new[i]", "(("+rvp+") \\/ ("+app+")) /\\ ~(m.mterm < currentTerm__new[self])", "a vote that is counted / an acknowledgement that is processed belongs to the current term"),
		r("AServer", "handleMsg", "records-every-responder", "votesResponded[i] := votesResponded[i] \\cup {j}", rvp+" /\\ ~(m.mterm < currentTerm__new[self])", "every responder of the current term is recorded"),
		r("AServer", "handleMsg", "learns-leader-of-current-term", "leader[i] := m.msource", apq+" /\\ m.mterm = currentTerm__new[i]", "the sender of an AppendEntries of the current term is the leader"),
		r("AServer", "handleMsg", "durable-log-pops-the-truncated-suffix", "plog[i] := [cmd |-> LogPop, cnt |-> Len(log[i]) - m.mprevLogIndex]", apq+" /\\ ~"+rejectAE, "the durable log drops exactly the entries behind the agreed prefix"),
		r("AServer", "handleMsg", "durable-log-appends-entries", "plog[i] := [cmd |-> LogConcat, entries |-> m.mentries]", apq+" /\\ ~"+rejectAE, "... and appends exactly the leader's entries"),
		x("AServer", "handleMsg", "commit-within-log", "assert", "m.mcommitIndex <= Len(log__new[i])", apq+" /\\ ~"+rejectAE, "a follower is never told to commit beyond its log"),
		x("AServer", "handleMsg", "follower-applies-newly-committed-range", "with result", "ApplyLog(log__new[i], commitIndex[i]+1, m.mcommitIndex, sm[i], smDomain[i])", apq+" /\\ ~"+rejectAE, "a follower applies exactly the entries between its commit index and the leader's"),
		r("AServer", "handleMsg", "leader-wakes-replication", "appendEntriesCh[self] := TRUE", cli+" /\\ state[self] = Leader", "a new entry triggers a replication round"),
		r("AServer", "handleMsg", "leader-logs-durably", "plog[self] := [cmd |-> LogConcat, entries |-> <<entry>>]", cli+" /\\ state[self] = Leader", "the leader's new entry is made durable"),
		r("AServer", "handleMsg", "non-leader-refuses-with-hint", "net[j] := [mtype |-> respType, msuccess |-> FALSE, mresponse |-> [idx |-> m.mcmd.idx, key |-> m.mcmd.key], mleaderHint |-> leader[i], msource |-> i, mdest |-> j]",
			cli+" /\\ ~(state[self] = Leader)", "a server that is not the leader refuses the request, names the request's index and hints at the leader"),
		x("AServer", "handleMsg", "refusal-typed-by-request", "with respType", "IF m.mcmd.type = Put THEN ClientPutResponse ELSE ClientGetResponse", cli+" /\\ ~(state[self] = Leader)",
			"a refused Put is answered with a Put response, a refused Get with a Get response: the client matches answers by type"),
		x("AServer", "handleMsg", "durable-truncation-starts-after-prev", "with index", "m.mprevLogIndex + 1", apq+" /\\ ~"+rejectAE, "what is cut from the durable log starts right behind the agreed prefix"),
		r("AServerBecomeLeader", "serverBecomeLeaderLoop", "new-leader-starts-replicating", "appendEntriesCh[srvId] := TRUE", "becomeLeaderCh[srvId]", "a new leader announces itself at once (the first round of AppendEntries doubles as the heartbeat)"),
		x("AServerRequestVote", "serverRequestVoteLoop", "election-waits-for-quiet-inbox", "await", "netLen[srvId] = 0", "", "an election starts only when no message is waiting"),
		r("AServerRequestVote", "requestVoteLoop", "asks-every-server", "idx := idx + 1", "idx <= NumServers", "votes are requested from one server after the other, all of them"),
		r("AServerAppendEntries", "appendEntriesLoop", "replicates-to-every-server", "idx := idx + 1", "state[srvId] = Leader /\\ idx <= NumServers", "entries are sent to one server after the other, all of them, while leader"),
	)
	const P = "PB-DECISION"
	pr := func(unit, label, key, effect, cond, why string) specRow {
		return specRow{rule: P, pair: "pbkvs", unit: unit, label: label, key: key, effect: effect, cond: cond, why: why}
	}
	px := func(unit, label, key, effect, expr, cond, why string) specRow {
		return specRow{rule: P, pair: "pbkvs", unit: unit, label: label, key: key, effect: effect, expr: expr, cond: cond, why: why}
	}
	pop := func(name, body, why string) specRow {
		return specRow{rule: P, pair: "pbkvs", op: name, body: body, why: why}
	}
	specTable(
		pop("REPLICA_SET", "1..NUM_REPLICAS", "the replicas are 1..NUM_REPLICAS"),
		pop("CLIENT_SET", "(NUM_REPLICAS+1)..(NUM_REPLICAS+NUM_CLIENTS)", "client ids follow the replicas'"),
		pop("NUM_NODES", "NUM_REPLICAS + NUM_CLIENTS", "nodes are the replicas and the clients"),
		pr("AReplica", "sndSyncReqLoop", "sync-visits-every-replica", "idx := idx + 1", "idx <= NUM_REPLICAS", "the synchronisation round visits the replicas one after the other"),
		pr("AReplica", "sndReplicaReqLoop", "replication-visits-every-replica", "idx := idx + 1", "idx <= NUM_REPLICAS", "replication visits the replicas one after the other"),
		px("AReplica", "rcvSyncRespLoop", "asserts-sync-answer-provenance", "assert", "repResp__new.id = 3 /\\ repResp__new.to = self /\\ repResp__new.srcTyp = BACKUP_SRC /\\ repResp__new.typ = SYNC_RESP /\\ (repResp__new.from \\in replicaSet \\/ fd[repResp__new.from])",
			"Cardinality(replicaSet) > 0", "what the new primary counts as a synchronisation answer is one, from a backup it waits for"),
		px("AReplica", "rcvMsg", "asserts-own-request", "assert", "req__new.to = self", "~(primary = self /\\ shouldSync)", "a replica handles requests addressed to it"),
		px("AReplica", "handleBackup", "backup-obeys-primary-only", "assert", "req.srcTyp = PRIMARY_SRC", "", "a backup acts on the primary's requests only"),
		px("AReplica", "handlePrimary", "primary-serves-clients-only", "assert", "req.srcTyp = CLIENT_SRC", "", "the primary path serves client requests only"),
		pr("AReplica", "rcvReplicaRespLoop", "suspects-a-waited-for-backup", "replica := CHOOSE r \\in replicaSet: TRUE", "Cardinality(replicaSet) > 0", "the backup given up on is one that is still waited for"),
		pr("AReplica", "rcvSyncRespLoop", "suspects-a-waited-for-replica", "replica := CHOOSE r \\in replicaSet: TRUE", "Cardinality(replicaSet) > 0", "the replica given up on is one that is still waited for"),
		px("AClient", "rcvResp", "asserts-put-answer", "assert", "resp__new.to = self /\\ resp__new.from = replica /\\ resp__new.body = ACK_MSG_BODY /\\ resp__new.srcTyp = PRIMARY_SRC /\\ resp__new.typ = PUT_RESP /\\ resp__new.id = idx",
			"~(resp__new.id # idx) /\\ msg.typ = PUT_REQ", "a Put is acknowledged by the primary it was sent to, for this request"),
		px("AClient", "rcvResp", "asserts-get-answer", "assert", "resp__new.to = self /\\ resp__new.from = replica /\\ resp__new.srcTyp = PRIMARY_SRC /\\ resp__new.typ = GET_RESP /\\ resp__new.id = idx",
			"~(resp__new.id # idx) /\\ msg.typ # PUT_REQ /\\ msg.typ = GET_REQ", "a Get is answered by the primary it was sent to, for this request"),
		pr("AClient", "sndReq", "request-is-numbered-and-addressed", "req := [from |-> self, to |-> replica__new, body |-> msg.body, srcTyp |-> CLIENT_SRC, typ |-> msg.typ, id |-> idx]", "replica__new # NULL", "the request carries the client's id, the primary's id and the request number"),
		pr("AClient", "sndReq", "retries-when-primary-failed", "goto sndReq", "replica__new # NULL /\\ fd[replica__new]", "a request is re-addressed only when the chosen primary is detected as failed"),
	)
}

func init() {
	// C16: rows added from the survivors of the specification sweep
	const S = "SYS-DECISION"
	op := func(pair, name, body, why string) specRow {
		return specRow{rule: S, pair: pair, op: name, body: body, why: why}
	}
	r := func(pair, unit, label, key, effect, cond, why string) specRow {
		return specRow{rule: S, pair: pair, unit: unit, label: label, key: key, effect: effect, cond: cond, why: why}
	}
	x := func(pair, unit, label, key, effect, expr, cond, why string) specRow {
		return specRow{rule: S, pair: pair, unit: unit, label: label, key: key, effect: effect, expr: expr, cond: cond, why: why}
	}
	specTable(
		op("dqueue", "NUM_NODES", "NUM_CONSUMERS + 1", "the nodes are the consumers and the one producer"),
		op("loadbalancer", "NUM_NODES", "NUM_CLIENTS + NUM_SERVERS + 1", "the nodes are the clients, the servers and the balancer"),
		op("proxy", "NUM_NODES", "NUM_SERVERS + NUM_CLIENTS + 1", "the nodes are the servers, the clients and the proxy"),
		op("proxy", "ProxyID", "NUM_NODES", "the proxy has the last id"),
		op("proxy", "SERVER_SET", "1..NUM_SERVERS", "the servers are 1..NUM_SERVERS (the order the proxy tries them in)"),
		op("proxy", "CLIENT_SET", "(NUM_SERVERS+1)..(NUM_SERVERS+NUM_CLIENTS)", "client ids follow the servers'"),
		op("gcounter", "MAX", "IF a > b THEN a ELSE b", "MAX is the maximum"),
		op("gcounter", "NODE_SET", "1..NUM_NODES", "the nodes are 1..NUM_NODES"),
		op("shcounter", "NODE_SET", "1..NUM_NODES", "the nodes are 1..NUM_NODES"),
		op("shopcart", "Max", "IF a > b THEN a ELSE b", "Max is the maximum"),
		op("shopcart", "MergeVectorClock", "[i \\in DOMAIN v1 |-> Max(v1[i], v2[i])]", "vector clocks merge component-wise by maximum"),
		op("shopcart", "CompareVectorClock", "IF \\A i \\in DOMAIN v1: v1[i] <= v2[i] THEN TRUE ELSE FALSE", "v1 is dominated by v2 when every component is"),
		op("shopcart", "MergeKeys", "[k \\in DOMAIN a |-> MergeVectorClock(a[k], b[k])]", "per-element clocks merge element by element"),
		op("shopcart", "Query", "{elem \\in DOMAIN r.addMap: ~CompareVectorClock(r.addMap[elem], r.remMap[elem])}", "an element is in the cart unless its add clock is dominated by its remove clock (add wins on concurrency)"),
		op("shopcart", "GetVal", "round * NumNodes + (n-1)", "bench values are distinct per node and round"),
		op("shopcart", "isOKSet", "\\A i \\in NodeSet: GetVal(i, round) \\in xset", "a round is complete when every node's value arrived"),
		x("proxy", "AProxy", "proxyLoop", "asserts-client-request", "assert", "msg__new.to = ProxyID /\\ msg__new.typ = REQ_MSG_TYP", "", "the proxy handles client requests addressed to it"),
		x("proxy", "AServer", "serverRcvMsg", "asserts-proxy-request", "assert", "msg__new.to = self /\\ msg__new.from = ProxyID /\\ msg__new.typ = PROXY_REQ_MSG_TYP", "", "a backend handles proxy requests addressed to it"),
		r("proxy", "AClient", "clientRcvResp", "request-ids-cycle", "reqId := (reqId + 1) % MSG_ID_BOUND", "", "request ids advance by one, modulo the bound"),
		r("proxy", "AClient", "clientLoop", "asks-the-proxy-in-own-name", "req := [from |-> self, to |-> ProxyID, body |-> input, id |-> reqId, typ |-> REQ_MSG_TYP]", "CLIENT_RUN", "a client's request names the client and carries its current request id"),
		r("gcounter", "ANodeBench", "waitInc", "round-advances-by-one", "r := r + 1", "", "one round at a time"),
		x("gcounter", "ANodeBench", "waitInc", "waits-for-every-increment-of-the-round", "await", "cntr[self] >= (r + 1) * NUM_NODES", "", "a bench round ends when every node's increment of that round is visible"),
		r("gcounter", "ANodeBench", "inc", "increments-own-component", "cntr[self] := 1", "", "a node increments through its own replica"),
		r("nestedcrdtimpl", "ATestBench", "waitInc", "round-advances-by-one", "r := r + 1", "", "one round at a time"),
		x("nestedcrdtimpl", "ATestBench", "waitInc", "waits-for-every-increment-of-the-round", "await", "crdt >= (r + 1) * numNodes", "", "a bench round ends when every node's increment of that round is visible"),
		r("nestedcrdtimpl", "ATestRig", "loop", "counts-iterations", "i := i + 1", "i < iterCount", "the rig performs exactly iterCount increments"),
		r("nestedcrdtimpl", "ACRDTResource", "receiveReq", "section-starts-at-first-touch", "criticalSectionInProgress := TRUE", "(req__new.tpe = READ_REQ \\/ (req__new.tpe # READ_REQ /\\ req__new.tpe = WRITE_REQ)) /\\ ~criticalSectionInProgress", "a section begins at the first read or write"),
		r("nestedcrdtimpl", "ACRDTResource", "receiveReq", "write-updates-working-copy", "readState := UPDATE_FN(self, readState__new, req__new.value)", "req__new.tpe # READ_REQ /\\ req__new.tpe = WRITE_REQ", "a write updates the section's working copy, not the replica state"),
		r("shopcart", "ANode", "nodeLoop", "add-is-an-add", "crdt[self] := [cmd |-> AddCmd, elem |-> req.elem]", "req.cmd = AddCmd", "an add request adds"),
		r("shopcart", "ANode", "nodeLoop", "remove-is-a-remove", "crdt[self] := [cmd |-> RemoveCmd, elem |-> req.elem]", "req.cmd # AddCmd /\\ req.cmd = RemoveCmd", "a remove request removes"),
		r("shopcart", "ANode", "rcvResp", "answers-with-own-replica", "out := crdt[self]", "", "a node answers with what its own replica reads"),
	)
}

func init() {
	// ---------------------------------------------------------------- replicated key-value store (C16)
	const S = "SYS-DECISION"
	r := func(unit, label, key, effect, cond, why string) specRow {
		return specRow{rule: S, pair: "replicatedkv", unit: unit, label: label, key: key, effect: effect, cond: cond, why: why}
	}
	x := func(unit, label, key, effect, expr, cond, why string) specRow {
		return specRow{rule: S, pair: "replicatedkv", unit: unit, label: label, key: key, effect: effect, expr: expr, cond: cond, why: why}
	}
	specTable(
		r("AReplica", "clientDisconnected", "disconnect-leaves-live-set", "liveClients := liveClients \\ {msg.client}", "msg.op = DISCONNECT_MSG", "a disconnected client no longer holds requests back"),
		r("AReplica", "replicaGetRequest", "get-advances-client-clock", "currentClocks[msg.client] := msg.timestamp", "msg.op = GET_MSG", "a request carries its client's clock"),
		r("AReplica", "replicaGetRequest", "get-is-queued-per-client", "pendingRequests[msg.client] := Append(pendingRequests[msg.client], msg)", "msg.op = GET_MSG", "requests are queued per client in arrival order"),
		x("AReplica", "replicaGetRequest", "get-from-live-client", "assert", "msg.client \\in liveClients", "msg.op = GET_MSG", "a Get comes from a client that has not disconnected"),
		r("AReplica", "replicaPutRequest", "put-advances-client-clock", "currentClocks[msg.client] := msg.timestamp", "msg.op = PUT_MSG", "a request carries its client's clock"),
		r("AReplica", "replicaPutRequest", "put-is-queued-per-client", "pendingRequests[msg.client] := Append(pendingRequests[msg.client], msg)", "msg.op = PUT_MSG", "requests are queued per client in arrival order"),
		r("AReplica", "replicaNullRequest", "null-advances-client-clock", "currentClocks[msg.client] := msg.timestamp", "msg.op = NULL_MSG", "a clock update only advances the client's clock"),
		r("AReplica", "findStableRequestsLoop", "stability-over-all-live-clients", "clientsIter := liveClients", "continue", "the minimum clock is taken over every live client, not only over those with pending requests: a client with nothing pending can still send a lower timestamp"),
		r("AReplica", "findStableRequestsLoop", "candidates-are-live-clients-with-pending-requests", "pendingClients := {c \\in liveClients : Len(pendingRequests[c]) > 0}", "continue", "only live clients with a pending request are candidates"),
		r("AReplica", "findStableRequestsLoop", "min-clock-restarts", "minClock := 0", "continue", "the minimum is recomputed in every round"),
		r("AReplica", "findMinClock", "takes-the-smaller-clock", "minClock := currentClocks[client]", "i < Cardinality(clientsIter) /\\ (minClock = 0 \\/ currentClocks[client] < minClock)", "the minimum is lowered exactly by a strictly smaller clock"),
		r("AReplica", "findMinClock", "visits-every-live-client", "clientsIter := clientsIter \\ {client}", "i < Cardinality(clientsIter)", "every live client is looked at once"),
		r("AReplica", "findMinClock", "lowest-pending-starts-above-min", "lowestPending := minClock + 1", "~(i < Cardinality(clientsIter))", "the search for a stable request starts above the minimum clock"),
		r("AReplica", "findMinClient", "stable-means-below-every-clock", "chooseMessage := (timestamp__new < lowestPending) \\/ ((timestamp__new = lowestPending) /\\ (client < nextClient))", "i < Cardinality(pendingClients) /\\ timestamp__new < minClock",
			"a request is a candidate only if its timestamp is below every live client's clock; ties are broken by client id"),
		r("AReplica", "findMinClient", "picks-the-chosen-client", "nextClient := client", "i < Cardinality(pendingClients) /\\ timestamp__new < minClock /\\ chooseMessage__new", "the chosen request's client is remembered"),
		r("AReplica", "addStableMessage", "moves-stable-request", "stableMessages := Append(stableMessages, msg__new)", "lowestPending < minClock", "a request is declared stable exactly when its timestamp is below the minimum clock"),
		r("AReplica", "addStableMessage", "stops-when-nothing-is-stable", "continue := FALSE", "~(lowestPending < minClock)", "the search ends when no pending request is stable"),
		r("AReplica", "addStableMessage", "pops-the-stable-request", "pendingRequests[nextClient] := Tail(pendingRequests[nextClient])", "lowestPending < minClock", "the stable request leaves its client's queue"),
		r("AReplica", "respondStablePut", "put-writes-store", "kv[key__new] := val__new", "msg.op = PUT_MSG", "a stable Put is applied to the store"),
		r("AReplica", "respondStablePut", "put-is-acknowledged-to-its-sender", "clients[msg.reply_to] := [type |-> PUT_RESPONSE, result |-> ok]", "msg.op = PUT_MSG", "the Put is acknowledged to the process that sent it"),
		r("AReplica", "respondStableGet", "get-reads-store", "val := kv[key__new]", "msg.op = GET_MSG", "a stable Get reads the store"),
		r("AReplica", "respondStableGet", "get-is-answered-to-its-sender", "clients[msg.reply_to] := [type |-> GET_RESPONSE, result |-> val__new]", "msg.op = GET_MSG", "the value goes to the process that asked"),
		r("AReplica", "respondPendingRequestsLoop", "answers-in-stable-order", "msg := stableMessages[i]", "i <= Len(stableMessages)", "stable requests are answered in the order they were declared stable"),
		r("Get", "getRequest", "tick-before-request", "clock[clientId] := clock[clientId] + 1", "~(clock[clientId] = -1)", "every request ticks the client's clock, unless the client has disconnected"),
		r("Get", "getRequest", "request-carries-clock-and-sender", "getReq := [op |-> GET_MSG, key |-> key, client |-> clientId, timestamp |-> clock__new[clientId], reply_to |-> self]", "~(clock[clientId] = -1)", "the request carries the ticked clock and the process to answer"),
		r("Put", "putRequest", "tick-before-request", "clock[clientId] := clock[clientId] + 1", "~(clock[clientId] = -1)", "every request ticks the client's clock, unless the client has disconnected"),
		r("Put", "putRequest", "request-carries-clock-and-sender", "putReq := [op |-> PUT_MSG, key |-> key, value |-> value, client |-> clientId, timestamp |-> clock__new[clientId], reply_to |-> self]", "~(clock[clientId] = -1)", "the request carries the ticked clock and the process to answer"),
		r("Put", "putResponse", "waits-for-every-replica", "goto putComplete", "~(i < Cardinality(ReplicaSet))", "a Put completes when every replica acknowledged"),
		r("Disconnect", "sendDisconnectRequest", "disconnect-marks-clock", "clock[clientId] := -1", "", "a disconnected client's clock is -1 from then on"),
	)
}

func init() {
	// the Raft client's request path and the crash model (from the survivors of the specification sweep)
	const R = "RAFT-DECISION"
	r := func(unit, label, key, effect, cond, why string) specRow {
		return specRow{rule: R, pair: "raftkvs", unit: unit, label: label, key: key, effect: effect, cond: cond, why: why}
	}
	x := func(unit, label, key, effect, expr, cond, why string) specRow {
		return specRow{rule: R, pair: "raftkvs", unit: unit, label: label, key: key, effect: effect, expr: expr, cond: cond, why: why}
	}
	specTable(
		r("AClient", "sndReq", "picks-a-server-only-when-no-leader-is-known", "leader := srv", "leader = Nil", "a client keeps talking to the leader it knows; it picks some server only when it knows none"),
		r("AClient", "sndReq", "put-request", "net[leader__new] := [mtype |-> ClientPutRequest, mcmd |-> [idx |-> reqIdx, type |-> Put, key |-> req.key, value |-> req.value], msource |-> self, mdest |-> leader__new]",
			"req.type = Put", "a Put goes to the (possibly just chosen) leader with the current request index, the key and the value"),
		r("AClient", "sndReq", "get-request", "net[leader__new] := [mtype |-> ClientGetRequest, mcmd |-> [idx |-> reqIdx, type |-> Get, key |-> req.key], msource |-> self, mdest |-> leader__new]",
			"req.type # Put /\\ req.type = Get", "a Get goes to the leader with the current request index and the key"),
		x("AClient", "rcvResp", "asserts-own-response", "assert", "resp__new.mdest = self", "", "a client reads responses addressed to it"),
		x("AClient", "rcvResp", "asserts-response-kind", "assert", "(req.type = Get => resp__new.mtype = ClientGetResponse) /\\ (req.type = Put => resp__new.mtype = ClientPutResponse)", "~(resp__new.mresponse.idx # reqIdx)",
			"the response to the current request is of the request's kind"),
		r("AClient", "rcvResp", "learns-leader-from-current-response", "leader := resp__new.mleaderHint", "~(resp__new.mresponse.idx # reqIdx)", "the leader hint is taken from responses to the current request only"),
		r("AClient", "rcvResp", "forgets-suspected-leader", "leader := Nil", "(fd[leader] /\\ netLen[self] = 0) \\/ timeout", "a suspected or silent leader is forgotten before the request is re-sent"),
		r("AServerCrasher", "serverCrash", "crash-cuts-the-network", "netEnabled[srvId] := FALSE", "", "a crashed server's mailbox is disabled"),
		r("AServerCrasher", "fdUpdate", "crash-is-detected", "fd[srvId] := TRUE", "", "a crashed server is eventually reported by the failure detector"),
	)
}
