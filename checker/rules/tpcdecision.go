package rules

import (
	"fmt"
	"go/ast"
	"go/constant"
	"go/token"
	"go/types"
	"sort"
	"strings"

	"pgoverif/checker/an"
	"pgoverif/checker/core"
)

// TPC-DECISION: the 2PC resource's decisions, written as a table. Each row names an effect (a store,
// a call, a reply, a return) in one function of twopc.go and the condition under which the protocol
// requires it. The check computes the path condition of the effect from the CFG (conjunction of the
// guarding conditions / switch case tests, helpers inlined) and compares it with the table on every
// assignment of the atoms. It is insensitive to how a guard is spelled and sensitive to every change
// of what it decides. A deliberate protocol change has to change this table.

func init() {
	register(&core.Rule{ID: "TPC-DECISION", Props: []string{"C11"}, Floor: 20,
		Doc: "decision table of the 2PC resource: for each effect (accept / reject / record / release / adopt / poison / quorum arithmetic / version of outgoing requests) the path condition computed from the CFG equals the condition the protocol prescribes, on every assignment of the guard atoms",
		Run: runTPCDecision})
}

type dtAtoms struct {
	pkg   *types.Package
	env   *dtEnv
	alias map[string]string // table name -> name in the code (locals renamed by a refactoring)
}

func (a dtAtoms) tr(name string) string {
	if n, ok := a.alias[name]; ok {
		return n
	}
	return name
}

func (a dtAtoms) I(name string) int64 {
	name = a.tr(name)
	v, ok := a.env.ints[name]
	if !ok {
		panic("decision table refers to unknown integer term " + name)
	}
	return v
}

// canonEq names an equality atom "X==Y" with its operands in the engine's fixed order (nil stays on the right).
func canonEq(name string) string {
	suffix := ""
	if k := strings.LastIndex(name, "#"); k > 0 && !strings.ContainsAny(name[k:], "=()") {
		name, suffix = name[:k], name[k:]
	}
	depth := 0
	for i := 0; i+1 < len(name); i++ {
		switch name[i] {
		case '(', '[':
			depth++
		case ')', ']':
			depth--
		case '=':
			if depth == 0 && name[i+1] == '=' {
				x, y := name[:i], name[i+2:]
				if strings.Contains(y, "==") {
					return name + suffix
				}
				if y < x && y != "nil" {
					x, y = y, x
				}
				return x + "==" + y + suffix
			}
		}
	}
	return name + suffix
}

func (a dtAtoms) B(name string) bool {
	name = a.tr(canonEq(name))
	v, ok := a.env.bools[name]
	if !ok {
		panic("decision table refers to unknown atom " + name)
	}
	return v
}
func (a dtAtoms) K(name string) int64 {
	c, ok := a.pkg.Scope().Lookup(name).(*types.Const)
	if !ok {
		panic("decision table refers to unknown constant " + name)
	}
	v, _ := constant.Int64Val(constant.ToInt(c.Val()))
	return v
}

// quorumFirst: per type-checked package, the position of the first comparison of `required` (rows are re-run per view).
var quorumFirst = map[*types.Info]token.Pos{}

// firstComparisonOf: n is an ordering comparison (< <= > >=) one of whose operands is the local called name; that operand.
func firstComparisonOf(info *types.Info, n ast.Node, name string) ast.Expr {
	be, ok := n.(*ast.BinaryExpr)
	if !ok {
		return nil
	}
	switch be.Op {
	case token.LSS, token.LEQ, token.GTR, token.GEQ:
	default:
		return nil
	}
	for _, side := range []ast.Expr{be.X, be.Y} {
		if id, isId := an.Unparen(side).(*ast.Ident); isId && id.Name == name {
			if v, isVar := info.ObjectOf(id).(*types.Var); isVar && !v.IsField() {
				return id
			}
		}
	}
	return nil
}

type dtRow struct {
	fn     string // method of TwoPCArchetypeResource (or "T.m" for another receiver type)
	key    string
	why    string
	find   func(info *types.Info, n ast.Node) bool // effect nodes (their path conditions are OR-ed)
	ints   map[string]string                       // integer atoms the reference needs: canonical name -> type name ("" = plain int)
	bools  []string
	intDom map[string][]int64
	ref    func(a dtAtoms) bool
	// value rows: compare an integer expression instead of a path condition
	valueOf func(info *types.Info, n ast.Node) ast.Expr
	refInt  func(a dtAtoms) int64
	// expression rows: compare a boolean expression found by exprOf (no path condition)
	exprOf func(info *types.Info, fn *an.Func) ast.Expr
	// occ: number atoms by source occurrence (needed when the same text is evaluated at several program points)
	occ bool
	// optional (value rows): assignments for which no effect applies carry no obligation
	optional bool
	// assume: assignments that cannot occur (e.g. an error equal to two different sentinels) are skipped
	assume func(a dtAtoms) bool
	// existsOthers: atoms the table does not declare are context, not part of the decision: the effect "happens" for an
	// assignment of the declared atoms if it happens for some assignment of the others
	existsOthers bool
	// track: the row is about the value an integer local has accumulated: always read under dtTrack
	track bool
	// resultIs: (effects that are return statements) the effect counts only where the first returned expression, read
	// through the locals the path assigned, is this canonical text
	resultIs string
	// when: a further condition on the effect node, evaluated per path: resolve reads a local through the expression the
	// path last assigned to it (under dtTrack; the identity otherwise)
	when func(resolve func(ast.Expr) ast.Expr, info *types.Info, n ast.Node) bool
	// returns: the row is about the function's boolean result: it "does it" on the paths to a return statement whose
	// result expression evaluates to *returns (find is not used)
	returns *bool
	// alts: other complete descriptions of the same obligation (the same behaviour reached through a helper that has its own
	// rows, say): the obligation holds if the row or one of these holds. Each inherits fn, key and why when it leaves them empty.
	alts []dtRow
	// ifExists: the row describes a helper predicate that callers are read through (it is inlined where it is used): when
	// the helper does not exist the rows about its callers carry the obligation alone
	ifExists bool
}

func runTPCDecision(c *core.Ctx) {
	e := EnvOf(c.Prog)
	t := mustType(c, e, an.PkgResources, "TwoPCArchetypeResource")
	pk := c.Prog.Pkg(an.PkgResources)
	if t == nil || pk == nil {
		return
	}
	fld := func(name string) *types.Var { return an.Field(t, name) }
	csF, tpF, accF, verF := fld("criticalSectionState"), fld("twoPCState"), fld("acceptedPreCommit"), fld("version")
	if csF == nil || tpF == nil || accF == nil || verF == nil {
		c.Lost("TwoPCArchetypeResource fields", "criticalSectionState / twoPCState / acceptedPreCommit / version not found")
		return
	}
	isCallTo := func(info *types.Info, n ast.Node, name string) (*ast.CallExpr, bool) {
		call, ok := n.(*ast.CallExpr)
		if !ok {
			return nil, false
		}
		f := an.CalleeFunc(info, call)
		return call, f != nil && f.Name() == name
	}
	constArg := func(info *types.Info, x ast.Expr, name string) bool {
		o := an.ObjOf(info, x)
		return o != nil && o.Name() == name
	}
	replyAssign := func(info *types.Info, n ast.Node, callee string) bool {
		as, ok := n.(*ast.AssignStmt)
		if !ok || len(as.Lhs) != 1 || len(as.Rhs) != 1 {
			return false
		}
		if _, isStar := an.Unparen(as.Lhs[0]).(*ast.StarExpr); !isStar {
			return false
		}
		if callee == "" {
			_, isLit := an.Unparen(as.Rhs[0]).(*ast.CompositeLit)
			return isLit
		}
		_, ok = isCallTo(info, an.Unparen(as.Rhs[0]), callee)
		return ok
	}
	storeConst := func(f *types.Var, cname string) func(*types.Info, ast.Node) bool {
		return func(info *types.Info, n ast.Node) bool {
			rhs, ok := fieldIsAssigned(info, n, f)
			return ok && rhs != nil && constArg(info, rhs, cname)
		}
	}
	// shared pieces of the acceptor's table
	S := func(a dtAtoms) bool { return a.I("$.twoPCState") == a.K("acceptedPreCommit") }
	fresh := func(a dtAtoms) bool {
		return a.I("arg.RequestType") != a.K("GetState") && a.I("arg.Version") >= a.I("$.version")+1
	}
	canAccept := func(cs int64, a dtAtoms) bool {
		return cs == a.K("inUninterruptedCriticalSection") || cs == a.K("notInCriticalSection") || cs == a.K("failedPreCommit") || cs == a.K("acceptedNewValueInCriticalSection")
	}
	idem := func(a dtAtoms) bool {
		return S(a) && a.I("$.acceptedPreCommit.Version") == a.I("arg.Version") &&
			a.B("Equal($.acceptedPreCommit.Sender,arg.Sender)") && a.B("Equal($.acceptedPreCommit.Value,arg.Value)")
	}
	rec := func(a dtAtoms) bool {
		return canAccept(a.I("$.criticalSectionState"), a) && (!S(a) || a.I("$.acceptedPreCommit.Version") < a.I("arg.Version") ||
			(a.I("$.acceptedPreCommit.Version") == a.I("arg.Version") && a.B("Equal($.acceptedPreCommit.Sender,arg.Sender)")))
	}
	permFailed := func(a dtAtoms) bool {
		cs := a.I("$.criticalSectionState")
		return cs == a.K("acceptedNewValueInCriticalSection") || cs == a.K("failedPreCommit")
	}
	accInts := map[string]string{"$.twoPCState": "TwoPCState", "arg.RequestType": "TwoPCRequestType", "arg.Version": "", "$.version": "",
		"$.acceptedPreCommit.Version": "", "$.criticalSectionState": "CriticalSectionState"}
	accBools := []string{"Equal($.acceptedPreCommit.Sender,arg.Sender)", "Equal($.acceptedPreCommit.Value,arg.Value)"}
	csOnly := map[string]string{"$.criticalSectionState": "CriticalSectionState"}
	retExpr := func(info *types.Info, fn *an.Func) ast.Expr { return singleReturn(fn) }

	rows := []dtRow{
		// ---------------- acceptor
		{fn: "receiveInternal", key: "reject-stale", why: "a request for a version this replica has already decided (arg.Version <= version) is rejected with the current value, so the sender learns it; anything newer is processed",
			find: func(info *types.Info, n ast.Node) bool {
				return replyAssign(info, n, "makeReject") && func() bool {
					call, _ := isCallTo(info, an.Unparen(n.(*ast.AssignStmt).Rhs[0]), "makeReject")
					return call != nil && len(call.Args) == 1 && isBoolConst(info, call.Args[0], true)
				}()
			},
			ints: accInts, ref: func(a dtAtoms) bool {
				return a.I("arg.RequestType") != a.K("GetState") && a.I("arg.Version") <= a.I("$.version")
			}},
		{fn: "receiveInternal", key: "answers-GetState", why: "GetState is answered with the committed value and version, whatever else is going on",
			find: func(info *types.Info, n ast.Node) bool { return replyAssign(info, n, "") },
			ints: accInts, ref: func(a dtAtoms) bool { return a.I("arg.RequestType") == a.K("GetState") }},
		{fn: "receiveInternal", key: "accepts", why: "Accept is the reply exactly for: a fresh PreCommit that repeats the accepted one (idempotent) or may be recorded; every fresh Commit; every fresh Abort",
			find: func(info *types.Info, n ast.Node) bool { return replyAssign(info, n, "makeAccept") },
			ints: accInts, bools: accBools, ref: func(a dtAtoms) bool {
				if !fresh(a) {
					return false
				}
				switch a.I("arg.RequestType") {
				case a.K("PreCommit"):
					return idem(a) || rec(a)
				case a.K("Commit"), a.K("Abort"):
					return true
				}
				return false
			}},
		{fn: "receiveInternal", key: "records-precommit", why: "a fresh PreCommit replaces the recorded one only if the local section can yield (canAcceptPreCommit) and nothing is recorded, or the recorded one is older, or it is the same proposer's retry; one grant per version",
			find: func(info *types.Info, n ast.Node) bool { _, ok := fieldIsAssigned(info, n, accF); return ok },
			ints: accInts, bools: accBools, ref: func(a dtAtoms) bool {
				return fresh(a) && a.I("arg.RequestType") == a.K("PreCommit") && !idem(a) && rec(a)
			}},
		{fn: "receiveInternal", key: "enters-acceptedPreCommit", why: "the acceptor state follows the recorded pre-commit",
			find: func(info *types.Info, n ast.Node) bool {
				call, ok := isCallTo(info, n, "setTwoPCState")
				return ok && len(call.Args) == 1 && constArg(info, call.Args[0], "acceptedPreCommit")
			},
			ints: accInts, bools: accBools, ref: func(a dtAtoms) bool {
				return fresh(a) && a.I("arg.RequestType") == a.K("PreCommit") && !idem(a) && rec(a)
			}},
		{fn: "receiveInternal", key: "abort-releases-owner-only", why: "only the proposer whose pre-commit is recorded can release it, and only while it is recorded",
			find: func(info *types.Info, n ast.Node) bool {
				call, ok := isCallTo(info, n, "setTwoPCState")
				return ok && len(call.Args) == 1 && constArg(info, call.Args[0], "initial")
			},
			ints: accInts, bools: accBools, ref: func(a dtAtoms) bool {
				return fresh(a) && a.I("arg.RequestType") == a.K("Abort") && a.B("Equal($.acceptedPreCommit.Sender,arg.Sender)") && S(a)
			}},
		{fn: "receiveInternal", key: "commit-adopts", why: "every fresh Commit is adopted unconditionally (a majority already agreed)",
			find: func(info *types.Info, n ast.Node) bool { _, ok := isCallTo(info, n, "acceptNewValue"); return ok },
			ints: accInts, ref: func(a dtAtoms) bool { return fresh(a) && a.I("arg.RequestType") == a.K("Commit") }},
		// ---------------- adopting a newer value
		{fn: "acceptNewValue", key: "releases-overtaken-precommit", why: "a recorded pre-commit for a version that is now decided can never commit: release it",
			find: func(info *types.Info, n ast.Node) bool {
				call, ok := isCallTo(info, n, "setTwoPCState")
				return ok && len(call.Args) == 1 && constArg(info, call.Args[0], "initial")
			},
			ints: map[string]string{"$.twoPCState": "TwoPCState", "$.acceptedPreCommit.Version": "", "version": ""},
			ref: func(a dtAtoms) bool {
				return a.I("$.twoPCState") == a.K("acceptedPreCommit") && a.I("$.acceptedPreCommit.Version") <= a.I("version")
			}},
		{fn: "acceptNewValue", key: "poisons-section-in-flight", why: "a section that is in progress when another proposer's value is adopted has read stale state and must fail",
			find: storeConst(csF, "acceptedNewValueInCriticalSection"), ints: csOnly,
			ref: func(a dtAtoms) bool { return a.I("$.criticalSectionState") != a.K("notInCriticalSection") }},
		// ---------------- predicate helpers
		{fn: "CriticalSectionState.canAcceptPreCommit", key: "states", why: "a replica yields to a remote pre-commit unless its own section is pre-committing or has pre-committed",
			exprOf: retExpr, ints: map[string]string{"$": "CriticalSectionState"},
			ref: func(a dtAtoms) bool { return canAccept(a.I("$"), a) }},
		{fn: "criticalSectionPermanentlyFailed", key: "states", why: "poisoned or failed pre-commit: the section can only abort", exprOf: retExpr, ints: csOnly, ref: permFailed},
		{fn: "shouldAbortPreCommit", key: "states", why: "no local pre-commit for a doomed section, nor while a remote pre-commit is granted", exprOf: retExpr,
			ints: map[string]string{"$.criticalSectionState": "CriticalSectionState", "$.twoPCState": "TwoPCState"},
			ref:  func(a dtAtoms) bool { return permFailed(a) || a.I("$.twoPCState") == a.K("acceptedPreCommit") }},
		{fn: "inCriticalSection", key: "states", ifExists: true, why: "every state but notInCriticalSection is inside a section", exprOf: retExpr, ints: csOnly,
			ref: func(a dtAtoms) bool { return a.I("$.criticalSectionState") != a.K("notInCriticalSection") }},
		// ---------------- section operations
		{fn: "ReadValue", key: "aborts-doomed-section", why: "a doomed section must not read",
			find: func(info *types.Info, n ast.Node) bool {
				r, ok := n.(*ast.ReturnStmt)
				return ok && len(r.Results) == 2 && !isNilIdent(info, r.Results[1])
			}, ints: csOnly, ref: permFailed},
		{fn: "ReadValue", key: "enters-section", why: "the first access opens the section",
			find: storeConst(csF, "inUninterruptedCriticalSection"), ints: csOnly,
			ref: func(a dtAtoms) bool {
				return !permFailed(a) && a.I("$.criticalSectionState") == a.K("notInCriticalSection")
			}},
		{fn: "WriteValue", key: "aborts-doomed-section", why: "a doomed section must not write",
			find: func(info *types.Info, n ast.Node) bool {
				r, ok := n.(*ast.ReturnStmt)
				return ok && len(r.Results) == 1 && !isNilIdent(info, r.Results[0])
			}, ints: csOnly, ref: permFailed},
		{fn: "WriteValue", key: "stores-value", why: "a live section's write is applied",
			find: func(info *types.Info, n ast.Node) bool { _, ok := fieldIsAssigned(info, n, fld("value")); return ok }, ints: csOnly,
			ref: func(a dtAtoms) bool { return !permFailed(a) }},
		{fn: "WriteValue", key: "enters-section", why: "the first access opens the section",
			find: storeConst(csF, "inUninterruptedCriticalSection"), ints: csOnly,
			ref: func(a dtAtoms) bool {
				return !permFailed(a) && a.I("$.criticalSectionState") == a.K("notInCriticalSection")
			}},
		// ---------------- quorum arithmetic
		{fn: "broadcast", key: "quorum-size", why: "with the proposer itself, `required` further acknowledgements make a strict majority of the replicas+1 group: ceil(N/2)",
			// the value `required` has when the wait for responses first tests it, whatever sequence of assignments produced it
			find: func(info *types.Info, n ast.Node) bool {
				id := firstComparisonOf(info, n, "required")
				if id == nil {
					return false
				}
				if p, seen := quorumFirst[info]; seen && p != id.Pos() {
					return p > id.Pos() && func() bool { quorumFirst[info] = id.Pos(); return true }()
				}
				quorumFirst[info] = id.Pos()
				return true
			},
			valueOf: func(info *types.Info, n ast.Node) ast.Expr { return firstComparisonOf(info, n, "required") },
			ints:    map[string]string{"len($.replicas)": ""}, intDom: map[string][]int64{"len($.replicas)": {0, 1, 2, 3, 4, 5, 6, 7, 8, 9}},
			track:  true,
			refInt: func(a dtAtoms) int64 { return (a.I("len($.replicas)") + 1) / 2 }},
		{fn: "broadcast", key: "waits-while-undecided", why: "keep collecting responses while more acknowledgements are needed and still possible",
			// a response is awaited exactly while ...
			find: func(info *types.Info, n ast.Node) bool {
				u, ok := n.(*ast.UnaryExpr)
				if !ok || u.Op != token.ARROW {
					return false
				}
				o := an.ObjOf(info, u.X)
				return o != nil && o.Name() == "responses"
			},
			ints: map[string]string{"required": "", "remaining": ""},
			ref:  func(a dtAtoms) bool { return a.I("required") > 0 && a.I("remaining") >= a.I("required") }},
		{fn: "broadcast", key: "counts-acknowledgements-only", why: "only a positive response counts towards the quorum",
			find: func(info *types.Info, n ast.Node) bool {
				switch x := n.(type) {
				case *ast.AssignStmt:
					return len(x.Lhs) == 1 && an.ObjOf(info, x.Lhs[0]) != nil && an.ObjOf(info, x.Lhs[0]).Name() == "required" && (x.Tok == token.SUB_ASSIGN)
				case *ast.IncDecStmt:
					return an.ObjOf(info, x.X) != nil && an.ObjOf(info, x.X).Name() == "required" && x.Tok == token.DEC
				}
				return false
			},
			ints: map[string]string{"required": "", "remaining": ""}, bools: []string{"response"},
			ref: func(a dtAtoms) bool {
				return a.I("required") > 0 && a.I("remaining") >= a.I("required") && a.B("response")
			}},
		{fn: "broadcast", key: "success-iff-quorum", why: "the broadcast succeeded iff no further acknowledgement is required",
			exprOf: func(info *types.Info, fn *an.Func) ast.Expr {
				var out ast.Expr
				for _, st := range fn.Body().List {
					if r, ok := st.(*ast.ReturnStmt); ok && len(r.Results) == 1 {
						out = r.Results[0]
					}
				}
				return out
			},
			ints: map[string]string{"required": ""}, ref: func(a dtAtoms) bool { return a.I("required") == 0 }},
	}
	always := func(a dtAtoms) bool { return true }
	storeAny := func(f *types.Var) func(*types.Info, ast.Node) bool {
		return func(info *types.Info, n ast.Node) bool { _, ok := fieldIsAssigned(info, n, f); return ok }
	}
	rows = append(rows,
		dtRow{fn: "receiveInternal", key: "precommit-default-is-reject", why: "a fresh PreCommit is rejected unless one of the accept rows applies (the default reply of the arm)",
			find: func(info *types.Info, n ast.Node) bool {
				if !replyAssign(info, n, "makeReject") {
					return false
				}
				call, _ := isCallTo(info, an.Unparen(n.(*ast.AssignStmt).Rhs[0]), "makeReject")
				return call != nil && len(call.Args) == 1 && isBoolConst(info, call.Args[0], false)
			},
			ints: accInts, ref: func(a dtAtoms) bool { return fresh(a) && a.I("arg.RequestType") == a.K("PreCommit") }},
		dtRow{fn: "doPreCommit", key: "enters-inPreCommit", why: "the local pre-commit starts only if the section is neither doomed nor blocked by a granted remote pre-commit",
			find: storeConst(csF, "inPreCommit"), ints: map[string]string{"$.criticalSectionState": "CriticalSectionState", "$.twoPCState": "TwoPCState"},
			ref: func(a dtAtoms) bool { return !(permFailed(a) || a.I("$.twoPCState") == a.K("acceptedPreCommit")) }},
		dtRow{fn: "doPreCommit", key: "adopts-newer-value-from-reject", why: "a replica that rejects tells its version; a newer one is adopted (which dooms this section)",
			find: func(info *types.Info, n ast.Node) bool { _, ok := isCallTo(info, n, "acceptNewValue"); return ok },
			ints: map[string]string{"$.criticalSectionState": "CriticalSectionState", "$.twoPCState": "TwoPCState", "reply.Version": "", "$.version": ""}, bools: []string{"err==nil", "reply.Accept"},
			ref: func(a dtAtoms) bool {
				return !(permFailed(a) || a.I("$.twoPCState") == a.K("acceptedPreCommit")) && a.B("err==nil") && !a.B("reply.Accept") && a.I("reply.Version") > a.I("$.version")
			}},
		dtRow{fn: "doPreCommit", key: "counts-only-accepts", why: "only an error-free Accept counts as an acknowledgement",
			find: func(info *types.Info, n ast.Node) bool {
				r, ok := n.(*ast.ReturnStmt)
				return ok && len(r.Results) == 1 && isBoolConst(info, r.Results[0], true)
			},
			ints: map[string]string{"$.criticalSectionState": "CriticalSectionState", "$.twoPCState": "TwoPCState"}, bools: []string{"err==nil", "reply.Accept"},
			ref: func(a dtAtoms) bool {
				return !(permFailed(a) || a.I("$.twoPCState") == a.K("acceptedPreCommit")) && a.B("err==nil") && a.B("reply.Accept")
			}},
		dtRow{fn: "Abort", key: "restores-value", why: "Abort always restores the committed value", find: func(info *types.Info, n ast.Node) bool {
			rhs, ok := fieldIsAssigned(info, n, fld("value"))
			return ok && rhs != nil && an.SelectedField(info, rhs) == fld("oldValue")
		}, ref: always},
		dtRow{fn: "Abort", key: "leaves-section", why: "Abort always ends the section", find: storeConst(csF, "notInCriticalSection"), ref: always},
		dtRow{fn: "Abort", key: "rolls-back-granted-precommit", why: "a pre-commit that was granted by the replicas is rolled back when the section aborts",
			find: func(info *types.Info, n ast.Node) bool {
				call, ok := n.(*ast.CallExpr)
				if !ok {
					return false
				}
				for _, arg := range call.Args {
					if sel, ok := an.Unparen(arg).(*ast.SelectorExpr); ok && sel.Sel.Name == "rollback" {
						return true
					}
				}
				f := an.CalleeFunc(info, call)
				return f != nil && f.Name() == "rollback"
			}, ints: csOnly, ref: func(a dtAtoms) bool { return a.I("$.criticalSectionState") == a.K("hasPreCommitted") }},
		dtRow{fn: "Commit", key: "advances-version-unless-overtaken", why: "the local copy moves to the committed version unless a later commit of another proposer already arrived",
			find: func(info *types.Info, n ast.Node) bool {
				switch x := n.(type) {
				case *ast.AssignStmt:
					return len(x.Lhs) == 1 && an.SelectedField(info, x.Lhs[0]) == verF
				case *ast.IncDecStmt:
					return an.SelectedField(info, x.X) == verF
				}
				return false
			}, ints: map[string]string{"$.version": "", "originalVersion": ""}, ref: func(a dtAtoms) bool { return a.I("$.version") == a.I("originalVersion") }},
		dtRow{fn: "Commit", key: "commits-snapshot-unless-overtaken", why: "the committed value becomes the rollback value together with the version",
			find: storeAny(fld("oldValue")), ints: map[string]string{"$.version": "", "originalVersion": ""}, ref: func(a dtAtoms) bool { return a.I("$.version") == a.I("originalVersion") }},
		dtRow{fn: "Commit", key: "leaves-section", why: "Commit always ends the section", find: storeConst(csF, "notInCriticalSection"), ref: always},
		dtRow{fn: "acceptNewValue", key: "adopts-version", why: "the adopted version is stored", find: storeAny(verF), ref: always},
		dtRow{fn: "acceptNewValue", key: "adopts-value", why: "the adopted value is stored", find: storeAny(fld("value")), ref: always},
		dtRow{fn: "acceptNewValue", key: "adopts-rollback-value", why: "the adopted value is also what an abort restores", find: storeAny(fld("oldValue")), ref: always},
		dtRow{fn: "setTwoPCState", key: "stores", why: "the acceptor state is stored", find: storeAny(tpF), ref: always},
		dtRow{fn: "fetchStateFromReplicas", key: "adopts-newer-only", why: "a fetched state is adopted iff it is newer",
			find: func(info *types.Info, n ast.Node) bool { _, ok := isCallTo(info, n, "acceptNewValue"); return ok },
			ints: map[string]string{"response.Version": "", "$.version": ""}, ref: func(a dtAtoms) bool { return a.I("response.Version") > a.I("$.version") }},
		dtRow{fn: "broadcast", key: "consumes-one-response-per-round", why: "each received response, positive or not, leaves one fewer outstanding",
			find: func(info *types.Info, n ast.Node) bool {
				switch x := n.(type) {
				case *ast.AssignStmt:
					return len(x.Lhs) == 1 && an.ObjOf(info, x.Lhs[0]) != nil && an.ObjOf(info, x.Lhs[0]).Name() == "remaining" && x.Tok == token.SUB_ASSIGN
				case *ast.IncDecStmt:
					return an.ObjOf(info, x.X) != nil && an.ObjOf(info, x.X).Name() == "remaining"
				}
				return false
			}, ints: map[string]string{"required": "", "remaining": ""}, bools: []string{"response"},
			ref: func(a dtAtoms) bool { return a.I("required") > 0 && a.I("remaining") >= a.I("required") }},
		dtRow{fn: "PreCommit", key: "aborts-if-interrupted-while-backing-off", why: "a section whose replica adopted a value or granted a remote pre-commit during the back-off sleep does not start its own pre-commit",
			find: func(info *types.Info, n ast.Node) bool {
				ss, ok := n.(*ast.SendStmt)
				if !ok {
					return false
				}
				o := selectedOrIdentObj(info, ss.Value)
				return ok && o != nil && o.Name() == "ErrCriticalSectionAborted"
			}, ints: map[string]string{"$.version": "", "initialVersion": "", "$.twoPCState": "TwoPCState"},
			ref: func(a dtAtoms) bool {
				return a.I("$.version") != a.I("initialVersion") || a.I("$.twoPCState") == a.K("acceptedPreCommit")
			}},
	)
	// outgoing requests carry version+1
	for _, mk := range []string{"makeCommit", "makeAbort", "makePreCommit"} {
		rows = append(rows, dtRow{fn: mk, key: "next-version", why: "a proposal is for the version after the last decided one",
			find: func(info *types.Info, n ast.Node) bool {
				kv, ok := n.(*ast.KeyValueExpr)
				if !ok {
					return false
				}
				id, ok := kv.Key.(*ast.Ident)
				return ok && id.Name == "Version"
			},
			valueOf: func(info *types.Info, n ast.Node) ast.Expr { return n.(*ast.KeyValueExpr).Value },
			ints:    map[string]string{"$.version": ""}, refInt: func(a dtAtoms) int64 { return a.I("$.version") + 1 }})
	}

	runDecisionRows(c, e, an.PkgResources, "TwoPCArchetypeResource", rows)
}

// runDecisionRows evaluates decision-table rows against functions of package pkgPath; row.fn is "method" (of defaultType),
// "Type.method", or ".func" for a package-level function.
// dtResolvePure: read a single-definition local that merely names a sub-expression (no field of the receiver involved)
// as that expression. Tables are written against the names the pinned tree uses; a row is first judged that way, and a
// row that fails is judged again with such locals expanded (a refactoring that hoists `cmd := value.ApplyFunction(k)`
// out of two comparisons is the same decision). The better verdict counts.
var dtResolvePure bool

// dtUnroll: paths to an effect may run the body of a loop once before leaving it (the default reading leaves every loop
// at its header), and a range loop is entered iff the ranged-over collection is non-empty.
var dtUnroll bool

// dtTrack: the values assigned to integer locals are carried along each path (`n := a / 2; if odd { n++ }` reaches the
// effect with n = a/2 or a/2+1), instead of reading every mention of such a local as a free term.
var dtTrack bool

func runDecisionRows(c *core.Ctx, e *Env, pkgPath, defaultType string, rows []dtRow) {
	fillRecClosures(e)
	runWith := func(ctx *core.Ctx, rs []dtRow, pure, unroll, track bool) {
		var plain, tracked []dtRow
		for _, r := range rs {
			if r.track && !track {
				tracked = append(tracked, r)
			} else {
				plain = append(plain, r)
			}
		}
		if len(plain) > 0 {
			dtResolvePure, dtUnroll, dtTrack = pure, unroll, track
			runDecisionRowsOnce(ctx, e, pkgPath, defaultType, plain)
		}
		if len(tracked) > 0 {
			dtResolvePure, dtUnroll, dtTrack = pure, unroll, true
			runDecisionRowsOnce(ctx, e, pkgPath, defaultType, tracked)
		}
		dtResolvePure, dtUnroll, dtTrack = false, false, false
	}
	c1 := c.Fork()
	runWith(c1, rows, false, false, false)
	// further readings of the same code, tried only for the rows that fail: a row holds if it holds under one of them
	for _, mode := range [][3]bool{{true, false, false}, {true, true, false}, {true, false, true}, {true, true, true}} {
		bad := map[string]bool{}
		for _, o := range c1.Obs {
			if o.Verdict != core.OK {
				bad[o.Construct] = true
			}
		}
		if len(bad) == 0 {
			break
		}
		var retry []dtRow
		for _, r := range rows {
			if bad[r.fn+":"+r.key] {
				retry = append(retry, r)
			}
		}
		if len(retry) == 0 {
			break
		}
		c2 := c.Fork()
		runWith(c2, retry, mode[0], mode[1], mode[2])
		// a row may produce several obligations under one construct: it is better only if none of them fails
		worse := map[string]bool{}
		for _, o := range c2.Obs {
			if o.Verdict != core.OK {
				worse[o.Construct] = true
			}
		}
		better := map[string]core.Obligation{}
		for _, o := range c2.Obs {
			if o.Verdict == core.OK && bad[o.Construct] && !worse[o.Construct] {
				better[o.Construct] = o
			}
		}
		for i, o := range c1.Obs {
			if b, ok := better[o.Construct]; ok && o.Verdict != core.OK {
				c1.Obs[i] = b
			}
		}
	}
	// alternative descriptions of the rows that still fail
	for _, r := range rows {
		if len(r.alts) == 0 {
			continue
		}
		key := r.fn + ":" + r.key
		failing := false
		for _, o := range c1.Obs {
			if o.Construct == key && o.Verdict != core.OK {
				failing = true
			}
		}
		if !failing {
			continue
		}
		for _, alt := range r.alts {
			if alt.fn == "" {
				alt.fn = r.fn
			}
			alt.key = r.key
			if alt.why == "" {
				alt.why = r.why
			}
			if alt.fn != r.fn {
				continue
			}
			ca := c.Fork()
			runDecisionRows(ca, e, pkgPath, defaultType, []dtRow{alt})
			good, n := true, 0
			var okOb core.Obligation
			for _, o := range ca.Obs {
				if o.Construct != key {
					continue
				}
				n++
				if o.Verdict != core.OK {
					good = false
				} else {
					okOb = o
				}
			}
			if good && n > 0 {
				for i, o := range c1.Obs {
					if o.Construct == key && o.Verdict != core.OK {
						c1.Obs[i] = okOb
					}
				}
				break
			}
		}
	}
	c.Obs = append(c.Obs, c1.Obs...)
	for k, v := range c1.Stats {
		c.Stats[k] += v
	}
}

func runDecisionRowsOnce(c *core.Ctx, e *Env, pkgPath, defaultType string, rows []dtRow) {
	pk := c.Prog.Pkg(pkgPath)
	if pk == nil {
		c.Lost(pkgPath, "package not loaded")
		return
	}
	for _, row := range rows {
		key := row.fn + ":" + row.key
		var fn *an.Func
		if row.ifExists {
			tn := defaultType
			mn := row.fn
			if i := indexByte(row.fn, '.'); i > 0 {
				tn, mn = row.fn[:i], row.fn[i+1:]
			}
			if e.Ix.LookupMethod(pkgPath, tn, mn) == nil {
				c.Ok(key, token.NoPos, "%s: no such helper in this tree (its callers are read directly)", row.why)
				continue
			}
		}
		if i := indexByte(row.fn, '.'); i == 0 {
			fn = mustFunc(c, e, pkgPath, row.fn[1:])
		} else if i > 0 {
			fn = mustMethod(c, e, pkgPath, row.fn[:i], row.fn[i+1:])
		} else {
			fn = mustMethod(c, e, pkgPath, defaultType, row.fn)
		}
		if fn == nil {
			continue
		}
		info := fn.Pkg.Info
		var recv types.Object
		if fn.Decl.Recv != nil && len(fn.Decl.Recv.List) == 1 && len(fn.Decl.Recv.List[0].Names) == 1 {
			recv = info.Defs[fn.Decl.Recv.List[0].Names[0]]
		}
		fr := &dtFrame{info: info, subst: map[types.Object]dtBound{}, recv: recv}
		for bi := range row.bools {
			row.bools[bi] = canonEq(row.bools[bi])
		}
		if row.returns != nil {
			row.find = func(_ *types.Info, n ast.Node) bool {
				r, isRet := n.(*ast.ReturnStmt)
				return isRet && len(r.Results) == 1
			}
		}
		ev := newDtEval(e)
		ev.occ = row.occ
		ev.root = fn.Body()
		ev.keep = map[string]bool{}
		for name := range row.ints {
			for _, id := range rootIdents(name) {
				ev.keep[id] = true
			}
		}
		for _, name := range row.bools {
			for _, id := range rootIdents(name) {
				ev.keep[id] = true
			}
		}
		type eff struct {
			paths [][]dtGuard
			value ast.Expr
			node  ast.Node
			fr    *dtFrame // frame the value expression is read in (nil: fr)
		}
		var effs []eff
		var expr ast.Expr
		if row.exprOf != nil {
			expr = row.exprOf(info, fn)
			if expr == nil {
				// a predicate written with several returns: it "does it" (returns true) iff one of its paths holds
				for _, pth := range ev.predicatePaths(fn) {
					effs = append(effs, eff{paths: [][]dtGuard{pth}, node: fn.Decl})
				}
			}
			if expr == nil && len(effs) == 0 {
				c.Lost(key, "the expression this row describes was not found in %s", fn.Name())
				continue
			}
		} else {
			// fullPaths: acyclic path conditions from the entry of function f to node n inside its body b, composed through the
			// call sites of enclosing function literals; guards are tagged with frame tagFr (nil for the row's own function)
			var fullPaths func(f *an.Func, bodies []fnBody, b fnBody, g *an.Graph, n ast.Node, tagFr *dtFrame) ([][]dtGuard, bool)
			fullPaths = func(f *an.Func, bodies []fnBody, b fnBody, g *an.Graph, n ast.Node, tagFr *dtFrame) ([][]dtGuard, bool) {
				at := g.AtomOf(n)
				if at == nil {
					at = n
				}
				ps, okp := allPaths(g, at)
				if !okp {
					return nil, false
				}
				if tagFr != nil {
					for i := range ps {
						for k := range ps[i] {
							ps[i][k].fr = tagFr
						}
					}
				}
				if b.lit == nil {
					return ps, true
				}
				var parent *fnBody
				for i := range bodies {
					pb := bodies[i]
					if pb.body == b.body || !(pb.body.Pos() <= b.lit.Pos() && b.lit.End() <= pb.body.End()) {
						continue
					}
					if parent == nil || (parent.body.Pos() <= pb.body.Pos() && pb.body.End() <= parent.body.End()) {
						parent = &bodies[i]
					}
				}
				if parent == nil {
					return nil, false
				}
				pg := graphOfBody(e, f.Pkg, f, *parent)
				outer, oko := fullPaths(f, bodies, *parent, pg, b.lit, tagFr)
				if !oko {
					return nil, false
				}
				var comb [][]dtGuard
				for _, o := range outer {
					for _, in := range ps {
						comb = append(comb, append(append([]dtGuard(nil), o...), in...))
					}
				}
				return comb, len(comb) < 20000
			}
			// search f (read in frame curFr, reached under the path conditions prefix) for the row's effects, then the helpers of
			// the same package it calls: an effect that a refactoring moved into a helper is the same decision, made at the
			// call site and inside the helper
			visited := map[*an.Func]bool{}
			descend := false // helpers are searched only when the function itself no longer contains the effect
			var search func(f *an.Func, curFr *dtFrame, prefix [][]dtGuard, depth int)
			search = func(f *an.Func, curFr *dtFrame, prefix [][]dtGuard, depth int) {
				if visited[f] || depth > 2 {
					return
				}
				visited[f] = true
				defer func() { visited[f] = false }()
				finfo := f.Pkg.Info
				bodies := bodiesOf(f)
				var tagFr *dtFrame
				if depth > 0 {
					tagFr = curFr
				}
				for _, b := range bodies {
					g := graphOfBody(e, f.Pkg, f, b)
					var nodes []ast.Node
					var calls []*ast.CallExpr
					an.Inspect(b.body, func(m ast.Node) bool {
						if row.find(finfo, m) {
							// a return inside a helper is the helper's, not the function's
							if _, isRet := m.(*ast.ReturnStmt); !isRet || depth == 0 {
								nodes = append(nodes, m)
							}
						}
						if call, ok := m.(*ast.CallExpr); ok {
							calls = append(calls, call)
						}
						return true
					})
					compose := func(ps [][]dtGuard) ([][]dtGuard, bool) {
						if prefix == nil {
							return ps, true
						}
						var comb [][]dtGuard
						for _, o := range prefix {
							for _, in := range ps {
								comb = append(comb, append(append([]dtGuard(nil), o...), in...))
							}
						}
						return comb, len(comb) < 20000
					}
					for _, n := range nodes {
						ps, okp := fullPaths(f, bodies, b, g, n, tagFr)
						if okp {
							ps, okp = compose(ps)
						}
						if !okp {
							c.Lost(key, "too many paths to the effect in %s", f.Name())
							continue
						}
						ef := eff{paths: ps, node: n, fr: tagFr}
						if row.valueOf != nil {
							ef.value = row.valueOf(finfo, n)
						}
						effs = append(effs, ef)
					}
					if depth >= 2 || !descend {
						continue
					}
					for _, call := range calls {
						callee := e.Ix.FuncOf(an.CalleeFunc(finfo, call))
						if callee == nil || callee.Pkg != f.Pkg || callee.Body() == nil || callee == fn || visited[callee] {
							continue
						}
						if singleReturn(callee) != nil {
							continue // predicate helpers are inlined where conditions are evaluated
						}
						// does the helper (or what it calls) contain the effect at all?
						has := false
						an.Inspect(callee.Body(), func(m ast.Node) bool {
							if _, isRet := m.(*ast.ReturnStmt); !isRet && row.find(callee.Pkg.Info, m) {
								has = true
							}
							return !has
						})
						if !has {
							continue
						}
						site, oks := fullPaths(f, bodies, b, g, call, tagFr)
						if oks {
							site, oks = compose(site)
						}
						if !oks {
							continue
						}
						// bind the helper's receiver and parameters to the caller's expressions
						nfr := &dtFrame{info: callee.Pkg.Info, subst: map[types.Object]dtBound{}, recv: curFr.recv}
						if callee.Decl.Recv != nil && len(callee.Decl.Recv.List) == 1 && len(callee.Decl.Recv.List[0].Names) == 1 {
							if sel, ok := an.Unparen(call.Fun).(*ast.SelectorExpr); ok {
								nfr.subst[callee.Pkg.Info.Defs[callee.Decl.Recv.List[0].Names[0]]] = dtBound{expr: sel.X, frame: curFr}
							}
						}
						ai := 0
						for _, fld := range callee.Decl.Type.Params.List {
							for _, nm := range fld.Names {
								if ai < len(call.Args) {
									nfr.subst[callee.Pkg.Info.Defs[nm]] = dtBound{expr: call.Args[ai], frame: curFr}
								}
								ai++
							}
						}
						search(callee, nfr, site, depth+1)
					}
				}
			}
			search(fn, fr, nil, 0)
			if len(effs) == 0 {
				descend = true
				search(fn, fr, nil, 0)
			}
			if len(effs) == 0 {
				c.Lost(key, "the effect this row describes was not found in %s", fn.Name())
				continue
			}
		}
		// loop-exit guards that mention none of the row's atoms are context
		{
			declared := map[string]bool{}
			for name := range row.ints {
				declared[name] = true
			}
			for _, name := range row.bools {
				declared[name] = true
			}
			for ei := range effs {
				for pi := range effs[ei].paths {
					for gi := range effs[ei].paths[pi] {
						gd := &effs[ei].paths[pi][gi]
						if !gd.loopExit {
							continue
						}
						tmp := newDtEval(e)
						tmp.root = ev.root
						_, _ = tmp.evalGuards([]dtGuard{*gd}, fr, nil)
						uses := false
						for name := range tmp.intTerms {
							if declared[name] {
								uses = true
							}
						}
						for name := range tmp.boolAtoms {
							if declared[name] {
								uses = true
							}
						}
						// with occurrence numbering the declared names carry #k: compare by base name too
						if !uses {
							for name := range declared {
								base := name
								if k := strings.LastIndex(base, "#"); k > 0 {
									base = base[:k]
								}
								if tmp.boolAtoms[base] {
									uses = true
								}
								if _, ok := tmp.intTerms[base]; ok {
									uses = true
								}
							}
						}
						// ... or by shape (a renamed local may be re-bound to a table atom later)
						if !uses {
							shapes := map[string]bool{}
							for name := range declared {
								shapes[atomShape(name)] = true
							}
							for name := range tmp.intTerms {
								if shapes[atomShape(name)] {
									uses = true
								}
							}
							for name := range tmp.boolAtoms {
								if shapes[atomShape(name)] {
									uses = true
								}
							}
						}
						if !uses {
							gd.skip = true
						}
					}
				}
			}
		}
		// first pass collects atoms
		var evalErr error
		collect := func(env *dtEnv) {
			if expr != nil {
				if _, err := ev.evalBool(expr, fr, env); err != nil && env != nil {
					evalErr = err
				}
				return
			}
			for _, ef := range effs {
				for _, pth := range ef.paths {
					if env == nil {
						// collection: visit every guard (evalGuards stops at the first one that fails)
						for _, gd := range pth {
							_, _ = ev.evalGuards([]dtGuard{gd}, fr, nil)
						}
						continue
					}
					if _, err := ev.evalGuards(pth, fr, env); err != nil && env != nil {
						evalErr = err
					}
				}
				if ef.value != nil {
					vfr := fr
					if ef.fr != nil {
						vfr = ef.fr
					}
					if _, err := ev.evalInt(ef.value, vfr, env); err != nil && env != nil {
						evalErr = err
					}
				}
				if rs, isRet := ef.node.(*ast.ReturnStmt); isRet && row.returns != nil && len(rs.Results) == 1 {
					vfr := fr
					if ef.fr != nil {
						vfr = ef.fr
					}
					if _, err := ev.evalBool(rs.Results[0], vfr, env); err != nil && env != nil {
						evalErr = err
					}
				}
			}
		}
		if row.occ {
			// number atoms by their occurrence among all conditions of the function, so that a name means the same program
			// point in every row of this function
			for _, b := range bodiesOf(fn) {
				ev.bodies = append(ev.bodies, [2]token.Pos{b.body.Pos(), b.body.End()})
			}
			for _, b := range bodiesOf(fn) {
				g := graphOfBody(e, fn.Pkg, fn, b)
				for _, blk := range g.CFG.Blocks {
					if cd, tag := g.Cond(blk); cd != nil {
						_, _ = ev.evalGuards([]dtGuard{{cond: cd, tag: tag, outcome: true}}, fr, nil)
					}
				}
			}
			ev.intTerms = map[string]types.Type{}
			ev.boolAtoms = map[string]bool{}
		}
		collect(nil)
		// local variables / parameters of the function (candidates for renaming)
		localNames := map[string]bool{}
		ast.Inspect(fn.Decl, func(m ast.Node) bool {
			if id, ok := m.(*ast.Ident); ok {
				if v, ok := info.Defs[id].(*types.Var); ok && v != nil && !v.IsField() {
					localNames[id.Name] = true
				}
			}
			return true
		})
		// atoms of the table that the code does not use, and atoms of the code the table does not know: if they pair up by
		// shape (the same text once local variable / parameter names and occurrence numbers are blanked), the difference is a
		// renaming and every pairing is tried
		type atomKey struct {
			kind  string
			shape string
		}
		tu, cu := map[atomKey][]string{}, map[atomKey][]string{}
		for name := range row.ints {
			if _, ok := ev.intTerms[name]; !ok {
				k := atomKey{"int", atomShape(name)}
				tu[k] = append(tu[k], name)
			}
		}
		for _, name := range row.bools {
			if !ev.boolAtoms[name] {
				k := atomKey{"bool", atomShape(name)}
				tu[k] = append(tu[k], name)
			}
		}
		declared := map[string]bool{}
		for name := range row.ints {
			declared[name] = true
		}
		for _, name := range row.bools {
			declared[name] = true
		}
		localRooted := func(name string) bool {
			rs := rootIdents(name)
			if len(rs) == 0 {
				return false
			}
			locals := 0
			for _, r := range rs {
				if r == "nil" || r == "true" || r == "false" {
					continue
				}
				if !localNames[r] {
					return false
				}
				locals++
			}
			return locals > 0
		}
		for name := range ev.intTerms {
			if !declared[name] && localRooted(name) {
				k := atomKey{"int", atomShape(name)}
				cu[k] = append(cu[k], name)
			}
		}
		for name := range ev.boolAtoms {
			if !declared[name] && localRooted(name) {
				k := atomKey{"bool", atomShape(name)}
				cu[k] = append(cu[k], name)
			}
		}
		renamings := []map[string]string{{}}
		// every unknown, local-rooted code atom must be the renamed form of some unused table atom of the same shape
		feasible := len(cu) > 0
		var groups []atomKey
		for k, cs := range cu {
			sort.Strings(cs)
			ts := tu[k]
			sort.Strings(ts)
			if row.existsOthers && len(ts) == 0 {
				// the table has no atom of this shape and treats undeclared atoms as context: nothing to re-bind here
				continue
			}
			if len(cs) > len(ts) || len(cs) > 3 || len(ts) > 6 {
				feasible = false
			}
			groups = append(groups, k)
		}
		sort.Slice(groups, func(i, j int) bool { return groups[i].kind+groups[i].shape < groups[j].kind+groups[j].shape })
		if feasible {
			renamings = nil
			var build func(gi int, cur map[string]string)
			build = func(gi int, cur map[string]string) {
				if len(renamings) > 500 {
					return
				}
				if gi == len(groups) {
					m := map[string]string{}
					for k, v := range cur {
						m[k] = v
					}
					renamings = append(renamings, m)
					return
				}
				cs, ts := cu[groups[gi]], tu[groups[gi]]
				// injections cs -> ts
				used := make([]bool, len(ts))
				var inj func(ci int)
				inj = func(ci int) {
					if ci == len(cs) {
						build(gi+1, cur)
						return
					}
					for ti := range ts {
						if used[ti] {
							continue
						}
						used[ti] = true
						cur[ts[ti]] = cs[ci]
						inj(ci + 1)
						delete(cur, ts[ti])
						used[ti] = false
					}
				}
				inj(0)
			}
			build(0, map[string]string{})
		}
		codeInts := map[string]types.Type{}
		for k, v := range ev.intTerms {
			codeInts[k] = v
		}
		codeBools := map[string]bool{}
		for k := range ev.boolAtoms {
			codeBools[k] = true
		}
		mismatch := ""
		n := 0
		extra := ""
		for ri, ren := range renamings {
			mismatch, evalErr, n = "", nil, 0
			// declare the reference's atoms under this renaming
			alias := map[string]string{}
			ev.intTerms = map[string]types.Type{}
			for k, v := range codeInts {
				ev.intTerms[k] = v
			}
			ev.boolAtoms = map[string]bool{}
			for k := range codeBools {
				ev.boolAtoms[k] = true
			}
			for name, tn := range row.ints {
				var ty types.Type = types.Typ[types.Int]
				if tn != "" {
					if o, ok := pk.Types.Scope().Lookup(tn).(*types.TypeName); ok {
						ty = o.Type()
					}
				}
				nn := name
				if r, ok := ren[name]; ok {
					nn = r
				}
				alias[name] = nn
				if _, ok := ev.intTerms[nn]; !ok {
					ev.intTerms[nn] = ty
				}
			}
			for _, b := range row.bools {
				nn := b
				if r, ok := ren[b]; ok {
					nn = r
				}
				alias[b] = nn
				ev.boolAtoms[nn] = true
			}
			intDom := map[string][]int64{}
			for k, v := range row.intDom {
				if r, ok := ren[k]; ok {
					intDom[r] = v
				} else {
					intDom[k] = v
				}
			}
			_ = extra
			projGot, projRef := map[string]bool{}, map[string]bool{}
			func() {
				defer func() {
					if r := recover(); r != nil {
						evalErr = fmt.Errorf("%v", r)
					}
				}()
				// row-specific domains
				evd := ev
				evd.enumerateWith(pk.Types, intDom, func(env *dtEnv) bool {
					a := dtAtoms{pkg: pk.Types, env: env, alias: alias}
					if row.assume != nil && !row.assume(a) {
						return true
					}
					n++
					if expr != nil {
						got, err := ev.evalBool(expr, fr, env)
						if err != nil {
							evalErr = err
							return false
						}
						if got != row.ref(a) {
							mismatch = fmt.Sprintf("for %s the code decides %v, the table %v", env, got, !got)
							return false
						}
						return true
					}
					if row.refInt != nil {
						// exactly one assignment applies and it has the prescribed value
						hits := 0
						for _, ef := range effs {
							ok := false
							vfr := fr
							if ef.fr != nil {
								vfr = ef.fr
							}
							for _, pth := range ef.paths {
								o, err := ev.evalGuards(pth, fr, env)
								if err != nil {
									evalErr = err
									return false
								}
								ok = ok || o
								if o && dtTrack {
									// the value depends on what the path assigned: every path that applies must give it
									v, err := ev.evalInt(ef.value, vfr, env)
									if err != nil {
										evalErr = err
										return false
									}
									if want := row.refInt(a); v != want {
										mismatch = fmt.Sprintf("for %s the code computes %d, the table %d", env, v, want)
										return false
									}
								}
							}
							env.store = nil
							if !ok {
								continue
							}
							hits++
							if dtTrack {
								continue
							}
							v, err := ev.evalInt(ef.value, vfr, env)
							if err != nil {
								evalErr = err
								return false
							}
							if want := row.refInt(a); v != want {
								mismatch = fmt.Sprintf("for %s the code computes %d, the table %d", env, v, want)
								return false
							}
						}
						if hits == 0 && row.optional {
							return true
						}
						if hits != 1 && !row.optional {
							mismatch = fmt.Sprintf("for %s %d assignments apply (expected exactly one)", env, hits)
							return false
						}
						return true
					}
					got := false
					for _, ef := range effs {
						for _, pth := range ef.paths {
							ok, err := ev.evalGuards(pth, fr, env)
							if err != nil {
								evalErr = err
								return false
							}
							if ok && row.returns != nil {
								rs, isRet := ef.node.(*ast.ReturnStmt)
								vfr := fr
								if ef.fr != nil {
									vfr = ef.fr
								}
								if !isRet || len(rs.Results) != 1 {
									ok = false
								} else {
									v, err := ev.evalBool(rs.Results[0], vfr, env)
									if err != nil {
										evalErr = err
										return false
									}
									ok = v == *row.returns
								}
							}
							if ok && row.when != nil {
								vfr := fr
								if ef.fr != nil {
									vfr = ef.fr
								}
								ok = row.when(func(x ast.Expr) ast.Expr { rx, _ := ev.symExpr(x, vfr, env); return rx }, vfr.info, ef.node)
							}
							if ok && row.resultIs != "" {
								rs, isRet := ef.node.(*ast.ReturnStmt)
								vfr := fr
								if ef.fr != nil {
									vfr = ef.fr
								}
								ok = isRet && len(rs.Results) > 0 && ev.canonSym(rs.Results[0], vfr, env) == row.resultIs
							}
							got = got || ok
						}
					}
					env.store, env.sym, env.flags = nil, nil, nil
					if row.existsOthers {
						// project on the declared atoms; compare after the enumeration
						var parts []string
						for name := range row.ints {
							parts = append(parts, fmt.Sprintf("%s=%d", name, a.I(name)))
						}
						for _, name := range row.bools {
							parts = append(parts, fmt.Sprintf("%s=%v", name, a.B(name)))
						}
						sort.Strings(parts)
						k := strings.Join(parts, " ")
						projGot[k] = projGot[k] || got
						projRef[k] = row.ref(a)
						return true
					}
					if got != row.ref(a) {
						mismatch = fmt.Sprintf("for %s the code does it: %v, the table: %v", env, got, !got)
						return false
					}
					return true
				})
			}()
			if evalErr == nil && mismatch == "" && row.existsOthers {
				var ks []string
				for k := range projRef {
					ks = append(ks, k)
				}
				sort.Strings(ks)
				for _, k := range ks {
					if projGot[k] != projRef[k] {
						mismatch = fmt.Sprintf("for %s the code does it: %v, the table: %v", k, projGot[k], projRef[k])
						break
					}
				}
			}
			if evalErr == nil && mismatch == "" {
				break
			}
			_ = ri
		}
		pos := fn.Pos()
		if len(effs) > 0 {
			pos = effs[0].node.Pos()
		} else if expr != nil {
			pos = expr.Pos()
		}
		switch {
		case evalErr != nil:
			c.Lost(key, "cannot compare with the decision table: %v%s", evalErr, extra)
		case mismatch != "":
			c.Bad(key, pos, "%s — %s", row.why, mismatch)
		default:
			c.Ok(key, pos, "%s (agrees on %d assignments)", row.why, n)
		}
	}
}

func indexByte(s string, b byte) int {
	for i := 0; i < len(s); i++ {
		if s[i] == b {
			return i
		}
	}
	return -1
}

// enumerateWith is enumerate with per-term domain overrides.
func (ev *dtEval) enumerateWith(pkg *types.Package, dom map[string][]int64, f func(env *dtEnv) bool) {
	if len(dom) == 0 {
		ev.enumerate(pkg, f)
		return
	}
	saved := map[string]types.Type{}
	for k := range dom {
		if t, ok := ev.intTerms[k]; ok {
			saved[k] = t
			delete(ev.intTerms, k)
		}
	}
	var names []string
	for k := range dom {
		names = append(names, k)
	}
	var rec func(i int, pre map[string]int64) bool
	rec = func(i int, pre map[string]int64) bool {
		if i == len(names) {
			cont := true
			ev.enumerate(pkg, func(env *dtEnv) bool {
				for k, v := range pre {
					env.ints[k] = v
				}
				if !f(env) {
					cont = false
					return false
				}
				return true
			})
			return cont
		}
		for _, v := range dom[names[i]] {
			pre[names[i]] = v
			if !rec(i+1, pre) {
				return false
			}
		}
		return true
	}
	rec(0, map[string]int64{})
	for k, t := range saved {
		ev.intTerms[k] = t
	}
}

// rootIdents returns the identifiers of a canonical atom name that are not field / method selectors.
func rootIdents(name string) []string {
	var out []string
	i := 0
	for i < len(name) {
		ch := name[i]
		if ch == '"' {
			// skip string literals
			i++
			for i < len(name) && name[i] != '"' {
				if name[i] == '\\' {
					i++
				}
				i++
			}
			i++
			continue
		}
		isStart := ch == '_' || (ch >= 'a' && ch <= 'z') || (ch >= 'A' && ch <= 'Z')
		if !isStart {
			i++
			continue
		}
		j := i
		for j < len(name) && (name[j] == '_' || (name[j] >= 'a' && name[j] <= 'z') || (name[j] >= 'A' && name[j] <= 'Z') || (name[j] >= '0' && name[j] <= '9')) {
			j++
		}
		if i == 0 || name[i-1] != '.' {
			// a call like len(...) or Equal(...) is a function name, not a variable
			if !(j < len(name) && name[j] == '(') {
				out = append(out, name[i:j])
			}
		}
		i = j
	}
	return out
}

func renameRoots(name string, ren map[string]string) string {
	if len(ren) == 0 {
		return name
	}
	var b strings.Builder
	i := 0
	for i < len(name) {
		ch := name[i]
		isStart := ch == '_' || (ch >= 'a' && ch <= 'z') || (ch >= 'A' && ch <= 'Z')
		if !isStart {
			b.WriteByte(ch)
			i++
			continue
		}
		j := i
		for j < len(name) && (name[j] == '_' || (name[j] >= 'a' && name[j] <= 'z') || (name[j] >= 'A' && name[j] <= 'Z') || (name[j] >= '0' && name[j] <= '9')) {
			j++
		}
		word := name[i:j]
		if (i == 0 || name[i-1] != '.') && !(j < len(name) && name[j] == '(') {
			if nn, ok := ren[word]; ok {
				word = nn
			}
		}
		b.WriteString(word)
		i = j
	}
	return b.String()
}

func permute(xs []string, f func([]string)) {
	var rec func(k int)
	a := append([]string(nil), xs...)
	rec = func(k int) {
		if k == len(a) {
			f(append([]string(nil), a...))
			return
		}
		for i := k; i < len(a); i++ {
			a[k], a[i] = a[i], a[k]
			rec(k + 1)
			a[k], a[i] = a[i], a[k]
		}
	}
	rec(0)
}

// atomShape blanks the local-variable roots and the occurrence number of an atom name.
func atomShape(name string) string {
	if i := strings.LastIndex(name, "#"); i >= 0 {
		digits := true
		for _, ch := range name[i+1:] {
			if ch < '0' || ch > '9' {
				digits = false
			}
		}
		if digits && i+1 < len(name) {
			name = name[:i]
		}
	}
	roots := map[string]string{}
	for _, r := range rootIdents(name) {
		roots[r] = "_"
	}
	return renameRoots(name, roots)
}
