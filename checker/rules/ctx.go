package rules

import (
	"fmt"
	"go/ast"
	"go/constant"
	"go/token"
	"go/types"
	"golang.org/x/tools/go/cfg"
	"strings"

	"pgoverif/checker/an"
	"pgoverif/checker/core"
)

func init() {
	register(&core.Rule{ID: "CS-ORDER", Props: []string{"C01", "C07"}, Floor: 12,
		Doc: "MPCalContext.commit: no Commit before every PreCommit result is in and the error test passed; commit/abort act on exactly the dirty handles and clear them; Run: abort() on the aborted arm, commit() only after a nil Body error and its error fed back to the loop-head switch",
		Run: runCSOrder})
	register(&core.Rule{ID: "CS-DIRTY", Props: []string{"C01"}, Floor: 4,
		Doc: "ArchetypeInterface.Read/Write mark the handle dirty before any Index/ReadValue/WriteValue on the resource",
		Run: runCSDirty})
	register(&core.Rule{ID: "RES-NOREBIND", Props: []string{"C01", "C04"}, Floor: 4,
		Doc: "the store into ctx.resources is reached only at configuration time, or from critical-section code under an absence test of that key (a live cell must never be replaced)",
		Run: runResNoRebind})
	register(&core.Rule{ID: "KIND-STACK", Props: []string{"C04", "C02"}, Floor: 3,
		Doc: "the .stack cell holds a sequence of frames: it is only written with sequence constructors and a value read from it is never used directly as a function/set/scalar",
		Run: runKindStack})
	register(&core.Rule{ID: "CALL-ORDER", Props: []string{"C04", "C02"}, Floor: 8,
		Doc: "Call saves each state variable before binding it, records the return label, pushes the frame after the loop, then runs the preamble and jumps; Return pops with Tail and writes every saved pair back; TailCall takes the return label before Return() and passes it to Call",
		Run: runCallOrder})
}

// returnedErr: the variable through which fn returns its error: the named result if there is one, else the local error
// variable that a return statement of fn (outside literals) names.
func returnedErr(fn *an.Func) types.Object {
	if o := namedResult(fn, len(resultNames(fn))-1); o != nil && len(resultNames(fn)) > 0 {
		if types.Identical(o.Type(), types.Universe.Lookup("error").Type()) {
			return o
		}
	}
	if o := namedResult(fn, 0); o != nil {
		return o
	}
	info := fn.Pkg.Info
	errT := types.Universe.Lookup("error").Type()
	var out types.Object
	ast.Inspect(fn.Body(), func(m ast.Node) bool {
		if _, isLit := m.(*ast.FuncLit); isLit {
			return false
		}
		if rs, ok := m.(*ast.ReturnStmt); ok && len(rs.Results) >= 1 && out == nil {
			if o := an.ObjOf(info, rs.Results[len(rs.Results)-1]); o != nil {
				if v, isVar := o.(*types.Var); isVar && types.Identical(v.Type(), errT) {
					out = o
				}
			}
		}
		return true
	})
	return out
}

func namedResult(fn *an.Func, idx int) types.Object {
	res := fn.Type().Results
	if res == nil {
		return nil
	}
	i := 0
	for _, fl := range res.List {
		for _, nm := range fl.Names {
			if i == idx {
				return fn.Pkg.Info.Defs[nm]
			}
			i++
		}
	}
	return nil
}

func isNilIdent(info *types.Info, e ast.Expr) bool {
	id, ok := an.Unparen(e).(*ast.Ident)
	if !ok {
		return false
	}
	_, isNil := info.Uses[id].(*types.Nil)
	return isNil
}

// isNeqNil: e is `X != nil` with X denoting obj.
func isNeqNil(info *types.Info, e ast.Expr, obj types.Object) bool {
	be, ok := an.Unparen(e).(*ast.BinaryExpr)
	if !ok || be.Op != token.NEQ {
		return false
	}
	if an.ObjOf(info, be.X) == obj && isNilIdent(info, be.Y) {
		return true
	}
	return an.ObjOf(info, be.Y) == obj && isNilIdent(info, be.X)
}

func callsMethodOf(info *types.Info, n ast.Node, pkg, typ, name string) bool {
	call, ok := n.(*ast.CallExpr)
	if !ok {
		return false
	}
	return an.IsMethodNamed(an.CalleeFunc(info, call), pkg, typ, name)
}

// rangesOverField reports the RangeStmt ancestors of n that range over a selector of field fld.
func enclosedByRangeOver(g *an.Graph, info *types.Info, n ast.Node, fld *types.Var) bool {
	return g.Enclosing(n, func(m ast.Node) bool {
		rs, ok := m.(*ast.RangeStmt)
		return ok && an.SelectedField(info, rs.X) == fld
	}) != nil
}

// checkJoin: the channel returned by a lifecycle call in commit()/abort() is, when non-nil, appended to a slice on
// every path of that branch, and that slice is drained (one receive per element, unconditionally) on every path from
// the call to any call in `later` and to the normal exit.
func checkJoin(c *core.Ctx, g *an.Graph, info *types.Info, key string, callAtom ast.Node, later []ast.Node) {
	as, ok := g.Parent(callAtom).(*ast.AssignStmt)
	var ch types.Object
	if ok && len(as.Lhs) == 1 && len(as.Rhs) == 1 {
		ch = an.ObjOf(info, as.Lhs[0])
	}
	if ch == nil {
		c.Bad(key, callAtom.Pos(), "the channel returned by the resource is not kept: an asynchronous step would never be waited for")
		return
	}
	// tests of the channel against nil, in either spelling (`ch != nil {collect}` or `ch == nil {continue}`)
	nonNilSide := map[ast.Node]bool{}
	var conds []ast.Node
	for _, blk := range g.CFG.Blocks {
		cd, _ := g.Cond(blk)
		if cd == nil {
			continue
		}
		if isT, nn := nilTestOn(g, info, cd, func(x ast.Expr) bool { return an.ObjOf(info, x) == ch }); isT {
			conds = append(conds, cd)
			nonNilSide[cd] = nn
		}
	}
	var slice types.Object
	var appendAtom, cond ast.Node
	for _, a := range g.FindAtoms(func(a ast.Node) bool {
		x, ok := a.(*ast.AssignStmt)
		if !ok || len(x.Lhs) != 1 || len(x.Rhs) != 1 {
			return false
		}
		call, ok := an.Unparen(x.Rhs[0]).(*ast.CallExpr)
		if !ok || !an.IsBuiltin(info, call, "append") || len(call.Args) < 2 {
			return false
		}
		if an.ObjOf(info, call.Args[0]) == nil || an.ObjOf(info, call.Args[0]) != an.ObjOf(info, x.Lhs[0]) {
			return false
		}
		for _, arg := range call.Args[1:] {
			if an.ObjOf(info, arg) == ch {
				return true
			}
		}
		return false
	}) {
		for _, cd := range conds {
			if g.Dominates(callAtom, cd) && g.GuardedBy(a, cd, nonNilSide[cd]) {
				appendAtom, cond = a, cd
				slice = an.ObjOf(info, a.(*ast.AssignStmt).Lhs[0])
			}
		}
	}
	if appendAtom == nil {
		c.Bad(key, callAtom.Pos(), "a non-nil channel returned by the resource is not collected (append under `ch != nil`): the asynchronous step is never waited for")
		return
	}
	// every path of the non-nil branch collects it before the next call / the exit
	skip := g.Search(an.Query{From: cond, Edges: g.Branch(cond, nonNilSide[cond]), ToExit: true,
		Target: func(a ast.Node) bool { return a == callAtom },
		Avoid:  func(a ast.Node) bool { return a == appendAtom }})
	if skip.Found {
		c.Bad(key, appendAtom.Pos(), "the non-nil channel can escape collection on some path of the `ch != nil` branch")
		return
	}
	// the drain loop
	var drainX ast.Node
	var drainBody *ast.BlockStmt
	var drainVal types.Object
	var drainRS *ast.RangeStmt
	for _, a := range g.FindAtoms(func(a ast.Node) bool {
		ex, ok := a.(ast.Expr)
		if !ok || an.ObjOf(info, ex) != slice {
			return false
		}
		rs, ok := g.Parent(a).(*ast.RangeStmt)
		return ok && rs.X == ex && rs.Value != nil
	}) {
		rs := g.Parent(a).(*ast.RangeStmt)
		drainX, drainBody, drainVal, drainRS = a, rs.Body, an.ObjOf(info, rs.Value), rs
	}
	if drainX == nil {
		// the slice may be handed to a helper that drains it: a function whose parameter is ranged over with one receive per
		// element on every path of the loop body
		e := EnvOf(c.Prog)
		for _, a := range g.FindAtoms(func(a ast.Node) bool {
			call, ok := a.(*ast.CallExpr)
			if !ok {
				return false
			}
			for _, arg := range call.Args {
				if an.ObjOf(info, arg) == slice {
					return true
				}
			}
			return false
		}) {
			call := a.(*ast.CallExpr)
			callee := e.Ix.FuncOf(an.CalleeFunc(info, call))
			if callee == nil || callee.Decl == nil {
				continue
			}
			for i, arg := range call.Args {
				if an.ObjOf(info, arg) != slice {
					continue
				}
				if drainsParam(e, callee, i) {
					p := g.Search(an.Query{From: callAtom, ToExit: true,
						Target: func(x ast.Node) bool {
							for _, l := range later {
								if x == l {
									return true
								}
							}
							return false
						},
						Avoid: func(x ast.Node) bool { return x == a }})
					if !p.Found {
						c.Ok(key, callAtom.Pos(), "non-nil channels are collected on every path and drained (by "+callee.Name()+") before the next phase and before returning")
						return
					}
				}
			}
		}
		c.Bad(key, callAtom.Pos(), "the collected channels are never drained: nothing waits for the asynchronous steps")
		return
	}
	isRecv := func(a ast.Node) bool {
		u, ok := a.(*ast.UnaryExpr)
		return ok && u.Op == token.ARROW && an.ObjOf(info, u.X) == drainVal
	}
	bb := g.BlockOfStmt(drainRS, cfg.KindRangeBody)
	if bb == nil || !g.PassesWithin(bb, drainBody.Pos(), drainBody.End(), isRecv) {
		c.Bad(key, drainX.Pos(), "the drain loop does not receive from every collected channel on every path of its body")
		return
	}
	p := g.Search(an.Query{From: callAtom, ToExit: true,
		Target: func(a ast.Node) bool {
			for _, l := range later {
				if a == l {
					return true
				}
			}
			return false
		},
		Avoid: func(a ast.Node) bool { return a == drainX }})
	if p.Found {
		what := "return"
		if p.Target != nil {
			what = "reach the next phase (" + c.Prog.Rel(p.Target.Pos()) + ")"
		}
		c.Bad(key, callAtom.Pos(), "the runtime can %s without draining the channels collected from this step: the step may still be in progress", what)
		return
	}
	c.Ok(key, callAtom.Pos(), "non-nil channels are collected on every path and drained before the next phase and before returning")
}

func runCSOrder(c *core.Ctx) {
	e := EnvOf(c.Prog)
	iface := resourceIface(c, e)
	ctxT := mustType(c, e, an.PkgDistsys, "MPCalContext")
	if iface == nil || ctxT == nil {
		return
	}
	dirty := mustField(c, ctxT, "dirtyResourceHandles")
	if dirty == nil {
		return
	}
	isClear := func(info *types.Info) func(a ast.Node) bool {
		return func(a ast.Node) bool {
			switch x := a.(type) {
			case *ast.CallExpr:
				if an.IsBuiltin(info, x, "clear") && len(x.Args) == 1 && an.SelectedField(info, x.Args[0]) == dirty {
					return true
				}
			case *ast.AssignStmt:
				// ctx.dirtyResourceHandles = make(...)
				for _, l := range x.Lhs {
					if an.SelectedField(info, l) == dirty {
						return true
					}
				}
			}
			return false
		}
	}
	// a "clearing loop": range over the dirty map whose body deletes the range key from it
	clearingLoopX := func(g *an.Graph, info *types.Info) func(a ast.Node) bool {
		return func(a ast.Node) bool {
			ex, ok := a.(ast.Expr)
			if !ok || an.SelectedField(info, ex) != dirty {
				return false
			}
			rs, ok := g.Parent(a).(*ast.RangeStmt)
			if !ok || rs.X != ex {
				return false
			}
			deletes := false
			ast.Inspect(rs.Body, func(m ast.Node) bool {
				if call, ok := m.(*ast.CallExpr); ok && an.IsBuiltin(info, call, "delete") && len(call.Args) == 2 &&
					an.SelectedField(info, call.Args[0]) == dirty && an.ObjOf(info, call.Args[1]) != nil && an.ObjOf(info, call.Args[1]) == an.ObjOf(info, rs.Key) {
					deletes = true
				}
				return true
			})
			return deletes
		}
	}

	// ---- commit()
	if fn := mustMethod(c, e, an.PkgDistsys, "MPCalContext", "commit"); fn != nil {
		g := e.Graph(fn)
		info := fn.Pkg.Info
		errVar := namedResult(fn, 0)
		if errVar == nil {
			// no named result: the local error variable that commit() returns
			errT := types.Universe.Lookup("error").Type()
			ast.Inspect(fn.Body(), func(m ast.Node) bool {
				if _, isLit := m.(*ast.FuncLit); isLit {
					return false
				}
				if rs, ok := m.(*ast.ReturnStmt); ok && len(rs.Results) == 1 && errVar == nil {
					if o := an.ObjOf(info, rs.Results[0]); o != nil {
						if v, isVar := o.(*types.Var); isVar && types.Identical(v.Type(), errT) {
							errVar = o
						}
					}
				}
				return true
			})
		}
		if errVar == nil {
			c.Lost("distsys.MPCalContext.commit:err", "the error variable commit() returns was not found")
		} else {
			lc := func(m string) []ast.Node {
				return g.FindAtoms(func(a ast.Node) bool {
					call, ok := a.(*ast.CallExpr)
					if !ok {
						return false
					}
					name, _, ok := lifecycleCall(info, call, iface)
					return ok && name == m
				})
			}
			commits, pres := lc("Commit"), lc("PreCommit")
			conds := g.CondAtoms(func(ex ast.Expr) bool { return isNeqNil(info, ex, errVar) })
			if len(commits) == 0 || len(pres) == 0 {
				c.Lost("distsys.MPCalContext.commit:calls", "PreCommit/Commit calls not found (%d/%d)", len(pres), len(commits))
			}
			for i, cm := range commits {
				key := fmt.Sprintf("commit:Commit#%d-after-error-test", i+1)
				ok := false
				for _, cd := range conds {
					if g.GuardedBy(cm, cd, false) {
						ok = true
					}
				}
				if ok {
					c.Ok(key, cm.Pos(), "Commit is reachable only through the err == nil successor of the pre-commit error test")
				} else {
					c.Bad(key, cm.Pos(), "a resource's Commit is reachable without passing the `err != nil -> return` test on the collected PreCommit results: one resource could commit although another refused")
				}
				// no PreCommit and no receive of a pre-commit result after a Commit
				p := g.Search(an.Query{From: cm, Target: func(a ast.Node) bool {
					if call, ok := a.(*ast.CallExpr); ok {
						if name, _, ok := lifecycleCall(info, call, iface); ok && name == "PreCommit" {
							return true
						}
					}
					if u, ok := a.(*ast.UnaryExpr); ok && u.Op == token.ARROW {
						if ch, ok := info.TypeOf(u.X).Underlying().(*types.Chan); ok {
							if n, ok := ch.Elem().(*types.Named); ok && n.Obj().Name() == "error" {
								return true
							}
						}
					}
					return false
				}})
				key2 := fmt.Sprintf("commit:Commit#%d-after-all-precommits", i+1)
				if p.Found {
					c.Bad(key2, cm.Pos(), "a PreCommit call or the receipt of a PreCommit result is reachable after a Commit call: commit started before the pre-commit phase completed")
				} else {
					c.Ok(key2, cm.Pos(), "the whole pre-commit phase precedes every Commit")
				}
				key3 := fmt.Sprintf("commit:Commit#%d-dirty-handles", i+1)
				c.Check(enclosedByRangeOver(g, info, cm, dirty), key3, cm.Pos(), "ranges over dirtyResourceHandles", "Commit is not called in a loop over ctx.dirtyResourceHandles: the set of committed resources differs from the set touched by the section")
			}
			for i, pc := range pres {
				key := fmt.Sprintf("commit:PreCommit#%d-dirty-handles", i+1)
				c.Check(enclosedByRangeOver(g, info, pc, dirty), key, pc.Pos(), "ranges over dirtyResourceHandles", "PreCommit is not called in a loop over ctx.dirtyResourceHandles")
			}
			for i, pc := range pres {
				checkJoin(c, g, info, fmt.Sprintf("commit:PreCommit#%d-joined", i+1), pc, commits)
			}
			for i, cm := range commits {
				checkJoin(c, g, info, fmt.Sprintf("commit:Commit#%d-joined", i+1), cm, nil)
			}
			// error accumulation: every assignment to err from a variable X is guarded by X != nil
			// the accumulator may reach the returned variable through plain copies (`err = ret`, each assigned once, outside
			// any loop - what an extracted pre-commit phase looks like once it is read in place): the copies are followed
			accs := map[types.Object]bool{errVar: true}
			copies := map[ast.Node]bool{}
			{
				errT := types.Universe.Lookup("error").Type()
				nAssign := map[types.Object]int{}
				inLoop := map[ast.Node]bool{}
				var walk func(n ast.Node, loop bool)
				walk = func(n ast.Node, loop bool) {
					ast.Inspect(n, func(m ast.Node) bool {
						switch x := m.(type) {
						case *ast.FuncLit:
							return false
						case *ast.ForStmt:
							if m != n {
								walk(x.Body, true)
								return false
							}
						case *ast.RangeStmt:
							if m != n {
								walk(x.Body, true)
								return false
							}
						case *ast.AssignStmt:
							if loop {
								inLoop[x] = true
							}
							if x.Tok == token.ASSIGN {
								for _, l := range x.Lhs {
									if o := an.ObjOf(info, l); o != nil {
										nAssign[o]++
									}
								}
							}
						}
						return true
					})
				}
				walk(fn.Body(), false)
				for changed := true; changed; {
					changed = false
					ast.Inspect(fn.Body(), func(m ast.Node) bool {
						as, ok := m.(*ast.AssignStmt)
						if !ok || as.Tok != token.ASSIGN || len(as.Lhs) != 1 || len(as.Rhs) != 1 || copies[as] || inLoop[as] {
							return true
						}
						dst, src := an.ObjOf(info, as.Lhs[0]), an.ObjOf(info, as.Rhs[0])
						if dst == nil || src == nil || !accs[dst] || nAssign[dst] != 1 {
							return true
						}
						if v, isVar := src.(*types.Var); isVar && !v.IsField() && types.Identical(v.Type(), errT) && v.Parent() != fn.Pkg.Types.Scope() {
							copies[as] = true
							accs[src] = true
							changed = true
						}
						return true
					})
				}
			}
			assigns := g.FindAtoms(func(a ast.Node) bool {
				as, ok := a.(*ast.AssignStmt)
				if !ok || len(as.Lhs) != 1 || len(as.Rhs) != 1 || copies[a] {
					return false
				}
				return accs[an.ObjOf(info, as.Lhs[0])] && an.ObjOf(info, as.Lhs[0]) != nil && !isNilIdent(info, as.Rhs[0])
			})
			for i, a := range assigns {
				as := a.(*ast.AssignStmt)
				key := fmt.Sprintf("commit:err-accumulation#%d", i+1)
				src := an.ObjOf(info, as.Rhs[0])
				ok := false
				if src != nil {
					for _, cd := range g.CondAtoms(func(ex ast.Expr) bool { return isNeqNil(info, ex, src) }) {
						if g.GuardedBy(a, cd, true) {
							ok = true
						}
					}
				}
				if ok {
					c.Ok(key, a.Pos(), "err is only overwritten by a non-nil pre-commit result")
				} else {
					c.Bad(key, a.Pos(), "err is overwritten by a pre-commit result that may be nil: a later resource's success would mask an earlier refusal and the section would commit partially")
				}
			}
			if len(assigns) == 0 {
				c.Lost("commit:err-accumulation", "no assignment of a pre-commit result to err found")
			}
			// dirty set cleared after the commits
			if len(commits) > 0 {
				clr := clearingLoopX(g, info)
				clr2 := isClear(info)
				ok, _ := g.MustPass(commits[len(commits)-1], func(a ast.Node) bool { return clr(a) || clr2(a) }, nil)
				c.Check(ok, "commit:clears-dirty-set", fn.Pos(), "every path from the last Commit to the exit clears dirtyResourceHandles",
					"commit() can return after committing without clearing dirtyResourceHandles: the next section would re-commit/abort stale handles")
			}
		}
	}

	// ---- abort()
	if fn := mustMethod(c, e, an.PkgDistsys, "MPCalContext", "abort"); fn != nil {
		g := e.Graph(fn)
		info := fn.Pkg.Info
		aborts := g.FindAtoms(func(a ast.Node) bool {
			call, ok := a.(*ast.CallExpr)
			if !ok {
				return false
			}
			name, _, ok := lifecycleCall(info, call, iface)
			return ok && name == "Abort"
		})
		if len(aborts) == 0 {
			c.Bad("abort:Abort-call", fn.Pos(), "abort() never calls Abort on a resource")
		}
		for i, a := range aborts {
			c.Check(enclosedByRangeOver(g, info, a, dirty), fmt.Sprintf("abort:Abort#%d-dirty-handles", i+1), a.Pos(),
				"ranges over dirtyResourceHandles", "Abort is not called in a loop over ctx.dirtyResourceHandles: a touched resource may be left un-rolled-back")
		}
		for i, a := range aborts {
			checkJoin(c, g, info, fmt.Sprintf("abort:Abort#%d-joined", i+1), a, nil)
		}
		clr := clearingLoopX(g, info)
		clr2 := isClear(info)
		ok, _ := g.MustPass(nil, func(a ast.Node) bool { return clr(a) || clr2(a) }, nil)
		c.Check(ok, "abort:clears-dirty-set", fn.Pos(), "every path through abort() clears dirtyResourceHandles",
			"abort() can return without clearing dirtyResourceHandles")
		// (the weaker "some receive follows the Abort calls" clause was superseded by abort:Abort#k-joined)
	}

	// ---- Run()
	if fn := mustMethod(c, e, an.PkgDistsys, "MPCalContext", "Run"); fn != nil {
		g := e.Graph(fn)
		info := fn.Pkg.Info
		errVar := namedResult(fn, 0)
		csT := e.Ix.LookupType(an.PkgDistsys, "MPCalCriticalSection")
		bodyFld := mustField(c, csT, "Body")
		aborted := e.Ix.LookupVar(an.PkgDistsys, "ErrCriticalSectionAborted")
		if errVar == nil || bodyFld == nil || aborted == nil {
			c.Lost("Run:anchors", "named result / MPCalCriticalSection.Body / ErrCriticalSectionAborted not found")
		} else {
			bodyCalls := g.FindAtoms(func(a ast.Node) bool {
				call, ok := a.(*ast.CallExpr)
				return ok && an.SelectedField(info, call.Fun) == bodyFld
			})
			commitCalls := g.FindAtoms(func(a ast.Node) bool { return callsMethodOf(info, a, an.PkgDistsys, "MPCalContext", "commit") })
			abortCalls := g.FindAtoms(func(a ast.Node) bool { return callsMethodOf(info, a, an.PkgDistsys, "MPCalContext", "abort") })
			if len(bodyCalls) != 1 || len(commitCalls) == 0 || len(abortCalls) == 0 {
				c.Lost("Run:calls", "expected one Body call, >=1 commit() and abort() calls; found %d/%d/%d", len(bodyCalls), len(commitCalls), len(abortCalls))
			} else {
				body := bodyCalls[0]
				assignedToErr := func(call ast.Node) bool {
					as, ok := g.Parent(call).(*ast.AssignStmt)
					return ok && len(as.Lhs) == 1 && an.ObjOf(info, as.Lhs[0]) == errVar
				}
				c.Check(assignedToErr(body), "Run:Body-error-kept", body.Pos(), "the Body result is assigned to err",
					"the result of the critical section Body is not assigned to err: a failed section would be committed")
				conds := g.CondAtoms(func(ex ast.Expr) bool { return isNeqNil(info, ex, errVar) })
				for i, cm := range commitCalls {
					ok := false
					for _, cd := range conds {
						if g.Dominates(body, cd) && g.GuardedBy(cm, cd, false) {
							ok = true
						}
					}
					c.Check(ok, fmt.Sprintf("Run:commit#%d-only-after-nil-Body-error", i+1), cm.Pos(), "commit() is reachable only on the err == nil successor after Body",
						"commit() is reachable although Body returned an error: an aborted or failed attempt would be committed")
					c.Check(assignedToErr(cm), fmt.Sprintf("Run:commit#%d-error-kept", i+1), cm.Pos(), "the commit() result is assigned to err and examined at the loop head",
						"the result of commit() is dropped: a refused pre-commit (ErrCriticalSectionAborted) would never be rolled back")
				}
				// the dispatch on the section outcome: switch err { ... } or an if-chain comparing err with the sentinels.
				// Its "heads" are the switch tag and every condition that compares err with something.
				isHead := func(a ast.Node) bool {
					ex, ok := a.(ast.Expr)
					if !ok {
						return false
					}
					if sw, isSw := g.Parent(a).(*ast.SwitchStmt); isSw && sw.Tag == ex && an.ObjOf(info, ex) == errVar {
						return true
					}
					if !g.IsCondAtom(a) {
						return false
					}
					found := false
					ast.Inspect(ex, func(m ast.Node) bool {
						if be, ok := m.(*ast.BinaryExpr); ok && (be.Op == token.EQL || be.Op == token.NEQ) {
							if an.ObjOf(info, be.X) == errVar || an.ObjOf(info, be.Y) == errVar {
								found = true
							}
						}
						return true
					})
					return found
				}
				heads := g.FindAtoms(isHead)
				if len(heads) == 0 {
					c.Bad("Run:error-dispatch", fn.Pos(), "Run never compares err with the abort / done sentinels")
				} else {
					p := g.Search(an.Query{From: body, Target: func(a ast.Node) bool { return a == body }, Avoid: isHead})
					c.Check(!p.Found, "Run:every-iteration-examines-err", heads[0].Pos(), "every cycle from Body back to Body evaluates the dispatch on err",
						"there is a cycle from Body back to Body that skips the dispatch on err: an error (abort, Done, failure) could be ignored")
					for i, from := range append([]ast.Node{body}, commitCalls...) {
						q := g.Search(an.Query{From: from, ToExit: true, Avoid: isHead})
						c.Check(!q.Found, fmt.Sprintf("Run:no-exit-before-outcome-examined#%d", i+1), from.Pos(), "every path from this section outcome to a return of Run evaluates the dispatch on err",
							"Run can return after this call without dispatching on err: a failed section is reported as success and an aborted one is never rolled back")
					}
					// the decisions of the dispatch, as a table over the three comparisons (at most one of which can hold)
					errName := errVar.Name()
					atomNil, atomAb, atomDone := errName+"==nil", errName+"==ErrCriticalSectionAborted", errName+"==ErrDone"
					assume := func(a dtAtoms) bool {
						n := 0
						for _, x := range []string{atomNil, atomAb, atomDone} {
							if a.B(x) {
								n++
							}
						}
						return n <= 1
					}
					bools := []string{atomNil, atomAb, atomDone}
					rows := []dtRow{
						{fn: "MPCalContext.Run", key: "aborts-exactly-the-aborted-outcome", why: "abort() runs exactly when the section outcome is ErrCriticalSectionAborted",
							find: func(inf *types.Info, n ast.Node) bool {
								return callsMethodOf(inf, n, an.PkgDistsys, "MPCalContext", "abort")
							}, bools: bools, assume: assume, existsOthers: true,
							ref: func(a dtAtoms) bool { return a.B(atomAb) }},
						{fn: "MPCalContext.Run", key: "returns-other-errors", why: "any other non-nil outcome except ErrDone ends Run with that error",
							find: func(inf *types.Info, n ast.Node) bool {
								r, ok := n.(*ast.ReturnStmt)
								return ok && len(r.Results) == 1 && an.ObjOf(inf, r.Results[0]) == errVar
							}, bools: bools, assume: assume, existsOthers: true,
							ref: func(a dtAtoms) bool { return !a.B(atomNil) && !a.B(atomAb) && !a.B(atomDone) }},
						{fn: "MPCalContext.Run", key: "next-section-only-after-nil-or-aborted", why: "a new attempt starts only after a committed or a rolled-back one",
							find: func(inf *types.Info, n ast.Node) bool {
								call, ok := n.(*ast.CallExpr)
								if !ok {
									return false
								}
								f := an.CalleeFunc(inf, call)
								return f != nil && f.Name() == "BeginEvent"
							}, bools: bools, assume: assume, existsOthers: true,
							ref: func(a dtAtoms) bool { return a.B(atomNil) || a.B(atomAb) }},
					}
					runDecisionRows(c, e, an.PkgDistsys, "", rows)
				}
			}
			// nothing else calls a critical section Body
			others := 0
			for _, f2 := range e.Ix.Funcs() {
				if f2 == fn {
					continue
				}
				ast.Inspect(f2.Body(), func(m ast.Node) bool {
					if call, ok := m.(*ast.CallExpr); ok && an.SelectedField(f2.Pkg.Info, call.Fun) == bodyFld {
						others++
						c.Bad(f2.Name()+":calls-Body", call.Pos(), "a critical section Body is invoked outside MPCalContext.Run: its effects bypass commit/abort")
					}
					return true
				})
			}
			if others == 0 {
				c.Ok("Body-called-only-by-Run", fn.Pos(), "no other call through MPCalCriticalSection.Body in the workspace")
			}
		}
	}
}

func selectedOrIdentObj(info *types.Info, e ast.Expr) types.Object {
	switch x := an.Unparen(e).(type) {
	case *ast.Ident:
		return info.ObjectOf(x)
	case *ast.SelectorExpr:
		return info.ObjectOf(x.Sel)
	}
	return nil
}

func runCSDirty(c *core.Ctx) {
	e := EnvOf(c.Prog)
	iface := resourceIface(c, e)
	if iface == nil {
		return
	}
	if mk := mustMethod(c, e, an.PkgDistsys, "ArchetypeInterface", "ensureCriticalSectionWith"); mk != nil {
		ctxT := mustType(c, e, an.PkgDistsys, "MPCalContext")
		var dirty *types.Var
		if ctxT != nil {
			dirty = mustField(c, ctxT, "dirtyResourceHandles")
		}
		if dirty != nil {
			g := e.Graph(mk)
			info := mk.Pkg.Info
			var handle types.Object
			if ps := mk.Decl.Type.Params.List; len(ps) > 0 && len(ps[0].Names) > 0 {
				handle = info.Defs[ps[0].Names[0]]
			}
			ok, _ := g.MustPass(nil, func(a ast.Node) bool {
				as, ok := a.(*ast.AssignStmt)
				if !ok || len(as.Lhs) != 1 || len(as.Rhs) != 1 {
					return false
				}
				ix, ok := an.Unparen(as.Lhs[0]).(*ast.IndexExpr)
				return ok && an.SelectedField(info, ix.X) == dirty && an.ObjOf(info, ix.Index) == handle && isBoolConst(info, as.Rhs[0], true)
			}, nil)
			c.Check(ok, "ensureCriticalSectionWith:marks-handle-dirty", mk.Pos(), "every path stores dirtyResourceHandles[handle] = true",
				"ensureCriticalSectionWith does not record the handle in dirtyResourceHandles on every path: a touched resource would be neither committed nor aborted")
		}
	}
	for _, name := range []string{"Read", "Write"} {
		fn := mustMethod(c, e, an.PkgDistsys, "ArchetypeInterface", name)
		if fn == nil {
			continue
		}
		g := e.Graph(fn)
		info := fn.Pkg.Info
		var handle types.Object
		if ps := fn.Decl.Type.Params.List; len(ps) > 0 && len(ps[0].Names) > 0 {
			handle = info.Defs[ps[0].Names[0]]
		}
		marks := g.FindAtoms(func(a ast.Node) bool {
			call, ok := a.(*ast.CallExpr)
			if !ok || !an.IsMethodNamed(an.CalleeFunc(info, call), an.PkgDistsys, "ArchetypeInterface", "ensureCriticalSectionWith") {
				return false
			}
			return len(call.Args) == 1 && an.ObjOf(info, call.Args[0]) == handle
		})
		ops := g.FindAtoms(func(a ast.Node) bool {
			call, ok := a.(*ast.CallExpr)
			if !ok {
				return false
			}
			_, _, ok = lifecycleCall(info, call, iface)
			return ok
		})
		if len(ops) < 2 {
			c.Lost("ArchetypeInterface."+name, "expected Index and %sValue calls, found %d lifecycle calls", name, len(ops))
		}
		for i, op := range ops {
			call := op.(*ast.CallExpr)
			m, _, _ := lifecycleCall(info, call, iface)
			key := fmt.Sprintf("ArchetypeInterface.%s:%s#%d", name, m, i+1)
			dom := false
			for _, mk := range marks {
				if g.Dominates(mk, op) {
					dom = true
				}
			}
			if dom {
				c.Ok(key, op.Pos(), "the handle is marked dirty before the resource is touched")
			} else {
				c.Bad(key, op.Pos(), "%s on the resource is reachable before ensureCriticalSectionWith(handle): if it fails or the section aborts, the resource is never rolled back", m)
			}
		}
		// the resource is obtained from the same handle
		got := g.FindAtoms(func(a ast.Node) bool {
			call, ok := a.(*ast.CallExpr)
			return ok && an.IsMethodNamed(an.CalleeFunc(info, call), an.PkgDistsys, "MPCalContext", "getResourceByHandle") && len(call.Args) == 1 && an.ObjOf(info, call.Args[0]) == handle
		})
		c.Check(len(got) > 0, "ArchetypeInterface."+name+":resource-of-handle", fn.Pos(), "the resource operated on is the one bound to the handle that was marked dirty",
			"the resource is not looked up from the handle that is marked dirty")
	}
}

// ------------------------------------------------------------------ RES-NOREBIND

func runResNoRebind(c *core.Ctx) {
	e := EnvOf(c.Prog)
	ctxT := mustType(c, e, an.PkgDistsys, "MPCalContext")
	if ctxT == nil {
		return
	}
	resources := mustField(c, ctxT, "resources")
	if resources == nil {
		return
	}
	// 1. find every function that stores into ctx.resources[...]
	var storers []*an.Func
	for _, fn := range e.Ix.Funcs() {
		info := fn.Pkg.Info
		stores := false
		ast.Inspect(fn.Body(), func(n ast.Node) bool {
			if as, ok := n.(*ast.AssignStmt); ok {
				for _, l := range as.Lhs {
					if ix, ok := an.Unparen(l).(*ast.IndexExpr); ok && an.SelectedField(info, ix.X) == resources {
						stores = true
					}
				}
			}
			return true
		})
		if stores {
			storers = append(storers, fn)
		}
	}
	if len(storers) == 0 {
		c.Lost("ctx.resources-store", "no function stores into MPCalContext.resources")
		return
	}
	isStorer := map[*types.Func]bool{}
	for _, s := range storers {
		isStorer[s.Obj] = true
		c.Ok(s.Name()+":stores-ctx.resources", s.Pos(), "binding primitive")
	}
	// configuration-time callers (by object)
	config := map[string]string{
		"distsys.NewMPCalContext":                                 "constructor",
		"distsys.EnsureArchetypeRefParam":                         "configuration closure, runs inside NewMPCalContext",
		"distsys.EnsureArchetypeValueParam":                       "configuration closure, runs inside NewMPCalContext",
		"distsys.ArchetypeInterface.EnsureArchetypeResourceLocal": "archetype preamble primitive (call sites checked separately)",
	}
	// 2. every call site of a storer, transitively through unguarded wrappers
	wrappers := map[*types.Func]bool{}
	for k := range isStorer {
		wrappers[k] = true
	}
	absenceGuarded := func(fn *an.Func, call *ast.CallExpr) bool {
		g := e.Graph(fn)
		info := fn.Pkg.Info
		if _, inLit := g.Enclosing(call, func(m ast.Node) bool { _, ok := m.(*ast.FuncLit); return ok }).(*ast.FuncLit); inLit {
			return false
		}
		for _, cd := range g.CondAtoms(func(ex ast.Expr) bool {
			u, ok := an.Unparen(ex).(*ast.UnaryExpr)
			if !ok || u.Op != token.NOT {
				return false
			}
			okObj := an.ObjOf(info, u.X)
			if okObj == nil {
				return false
			}
			// ok must be the comma-ok result of an index on ctx.resources
			found := false
			ast.Inspect(fn.Body(), func(m ast.Node) bool {
				if as, ok := m.(*ast.AssignStmt); ok && len(as.Lhs) == 2 && len(as.Rhs) == 1 && an.ObjOf(info, as.Lhs[1]) == okObj {
					if ix, ok := an.Unparen(as.Rhs[0]).(*ast.IndexExpr); ok && an.SelectedField(info, ix.X) == resources {
						found = true
					}
				}
				return true
			})
			return found
		}) {
			if g.GuardedBy(call, cd, true) {
				return true
			}
		}
		return false
	}
	for changed := true; changed; {
		changed = false
		for _, fn := range e.Ix.Funcs() {
			if fn.Obj == nil || wrappers[fn.Obj] {
				continue
			}
			if _, isConfig := config[fn.Name()]; isConfig {
				continue
			}
			info := fn.Pkg.Info
			ast.Inspect(fn.Body(), func(n ast.Node) bool {
				call, ok := n.(*ast.CallExpr)
				if !ok {
					return true
				}
				callee := an.CalleeFunc(info, call)
				if callee == nil || !wrappers[callee] {
					return true
				}
				if !absenceGuarded(fn, call) && !wrappers[fn.Obj] {
					wrappers[fn.Obj] = true
					changed = true
				}
				return true
			})
		}
	}
	// 3. section-time entry points must not be (unguarded) wrappers
	section := []string{"Call", "Return", "TailCall", "Goto", "Read", "Write", "RequireArchetypeResource", "RequireArchetypeResourceRef"}
	for _, name := range section {
		fn := mustMethod(c, e, an.PkgDistsys, "ArchetypeInterface", name)
		if fn == nil {
			continue
		}
		key := "ArchetypeInterface." + name
		if wrappers[fn.Obj] {
			c.Bad(key, fn.Pos(), "critical-section operation %s can reach the store ctx.resources[h] = ... without an absence test of h: it replaces a live state-variable cell (values saved for the caller's activation and the section's rollback snapshot are lost)", name)
		} else {
			c.Ok(key, fn.Pos(), "cannot re-bind an existing resource cell")
		}
	}
	// 4. EnsureArchetypeResourceLocal is only called from archetype PreAmble literals (MPCalArchetype.PreAmble), which run once in preRun
	archT := e.Ix.LookupType(an.PkgDistsys, "MPCalArchetype")
	pre := an.Field(archT, "PreAmble")
	sites, badSites := 0, 0
	for _, pk := range c.Prog.Sorted() {
		for _, f := range pk.Files {
			var stack []ast.Node
			ast.Inspect(f, func(n ast.Node) bool {
				if n == nil {
					stack = stack[:len(stack)-1]
					return true
				}
				stack = append(stack, n)
				call, ok := n.(*ast.CallExpr)
				if !ok || !an.IsMethodNamed(an.CalleeFunc(pk.Info, call), an.PkgDistsys, "ArchetypeInterface", "EnsureArchetypeResourceLocal") {
					return true
				}
				sites++
				ok2 := false
				for i := len(stack) - 1; i >= 0; i-- {
					if kv, isKV := stack[i].(*ast.KeyValueExpr); isKV {
						if id, isID := kv.Key.(*ast.Ident); isID && pre != nil && pk.Info.Uses[id] == pre {
							ok2 = true
						}
					}
				}
				if !ok2 {
					badSites++
					c.Bad(enclosingFuncName(pk, f, call)+":EnsureArchetypeResourceLocal", call.Pos(), "EnsureArchetypeResourceLocal is called outside an archetype PreAmble literal: executed inside a critical section it would replace a live local-variable cell")
				}
				return true
			})
		}
	}
	c.Count("EnsureArchetypeResourceLocal call sites", sites)
	if badSites == 0 {
		c.Ok("EnsureArchetypeResourceLocal-sites", ctxT.Obj().Pos(), "%d call sites, all inside MPCalArchetype.PreAmble literals", sites)
	}
}

// ------------------------------------------------------------------ KIND-STACK

func constString(info *types.Info, e ast.Expr) (string, bool) {
	tv, ok := info.Types[e]
	if !ok || tv.Value == nil || tv.Value.Kind() != constant.String {
		return "", false
	}
	return constant.StringVal(tv.Value), true
}

// stackVars returns (handle variables bound to ".stack", value variables read from it) in fn.
func stackVars(fn *an.Func) (handles, values map[types.Object]bool) {
	info := fn.Pkg.Info
	handles, values = map[types.Object]bool{}, map[types.Object]bool{}
	ast.Inspect(fn.Body(), func(n ast.Node) bool {
		as, ok := n.(*ast.AssignStmt)
		if !ok || len(as.Rhs) != 1 {
			return true
		}
		call, ok := an.Unparen(as.Rhs[0]).(*ast.CallExpr)
		if !ok {
			return true
		}
		f := an.CalleeFunc(info, call)
		if an.IsMethodNamed(f, an.PkgDistsys, "ArchetypeInterface", "RequireArchetypeResource") && len(call.Args) == 1 {
			if s, ok := constString(info, call.Args[0]); ok && s == ".stack" {
				if o := an.ObjOf(info, as.Lhs[0]); o != nil {
					handles[o] = true
				}
			}
		}
		return true
	})
	ast.Inspect(fn.Body(), func(n ast.Node) bool {
		as, ok := n.(*ast.AssignStmt)
		if !ok || len(as.Rhs) != 1 {
			return true
		}
		call, ok := an.Unparen(as.Rhs[0]).(*ast.CallExpr)
		if !ok {
			return true
		}
		f := an.CalleeFunc(info, call)
		if an.IsMethodNamed(f, an.PkgDistsys, "ArchetypeInterface", "Read") && len(call.Args) >= 1 && handles[an.ObjOf(info, call.Args[0])] {
			if o := an.ObjOf(info, as.Lhs[0]); o != nil {
				values[o] = true
			}
		}
		return true
	})
	return
}

func runKindStack(c *core.Ctx) {
	e := EnvOf(c.Prog)
	seqCtor := map[string]bool{"MakeTuple": true, "MakeTupleFromList": true, "ModuleOSymbol": true, "ModuleTail": true, "ModuleAppend": true, "ModuleSubSeq": true}
	for _, name := range []string{"Call", "Return", "TailCall"} {
		fn := mustMethod(c, e, an.PkgDistsys, "ArchetypeInterface", name)
		if fn == nil {
			continue
		}
		info := fn.Pkg.Info
		handles, values := stackVars(fn)
		if len(handles) == 0 || len(values) == 0 {
			c.Lost("ArchetypeInterface."+name+":.stack", "no read of the .stack cell recognised")
			continue
		}
		n := 0
		ast.Inspect(fn.Body(), func(m ast.Node) bool {
			call, ok := m.(*ast.CallExpr)
			if !ok {
				return true
			}
			f := an.CalleeFunc(info, call)
			if f == nil {
				return true
			}
			// direct kind accessors on a stack value
			if sel, ok := an.Unparen(call.Fun).(*ast.SelectorExpr); ok && values[an.ObjOf(info, sel.X)] && an.IsMethodNamed(f, an.PkgTLA, "Value", f.Name()) {
				n++
				key := fmt.Sprintf("ArchetypeInterface.%s:%s.%s", name, an.ExprString(sel.X), f.Name())
				switch f.Name() {
				case "AsFunction", "AsSet", "AsBool", "AsNumber", "AsString", "ApplyFunction":
					if f.Name() == "ApplyFunction" {
						c.Ok(key, call.Pos(), "indexing a sequence")
					} else {
						c.Bad(key, call.Pos(), "the value of the .stack cell is a sequence of frames, but it is used directly with %s: this is a TLA+ type error on every execution (take Head first)", f.Name())
					}
				default:
					c.Ok(key, call.Pos(), "kind-compatible use of the stack value")
				}
			}
			// stack value handed to a sequence operator
			if f.Pkg() != nil && f.Pkg().Path() == an.PkgTLA && an.RecvNamed(f) == nil {
				for _, a := range call.Args {
					if values[an.ObjOf(info, a)] {
						n++
						key := fmt.Sprintf("ArchetypeInterface.%s:%s(%s)", name, f.Name(), an.ExprString(a))
						switch f.Name() {
						case "ModuleHead", "ModuleTail", "ModuleLen", "ModuleOSymbol", "ModuleAppend", "ModuleSubSeq":
							c.Ok(key, call.Pos(), "the stack value is used as a sequence")
						default:
							c.Bad(key, call.Pos(), "the value of the .stack cell (a sequence of frames) is passed to %s, which does not take a sequence", f.Name())
						}
					}
				}
			}
			// writes to .stack
			if an.IsMethodNamed(f, an.PkgDistsys, "ArchetypeInterface", "Write") && len(call.Args) == 3 && handles[an.ObjOf(info, call.Args[0])] {
				n++
				key := fmt.Sprintf("ArchetypeInterface.%s:write(.stack)", name)
				vc, ok := an.Unparen(an.ResolveLocal(info, fn.Body(), call.Args[2])).(*ast.CallExpr)
				vf := (*types.Func)(nil)
				if ok {
					vf = an.CalleeFunc(info, vc)
				}
				if vf != nil && vf.Pkg() != nil && vf.Pkg().Path() == an.PkgTLA && seqCtor[vf.Name()] {
					c.Ok(key, call.Pos(), "written with sequence constructor %s", vf.Name())
				} else {
					c.Bad(key, call.Pos(), "the .stack cell is written with %s, which is not a sequence constructor", an.ExprString(call.Args[2]))
				}
			}
			return true
		})
		if n == 0 {
			c.Undecided("ArchetypeInterface."+name, fn.Pos(), "no use of the stack value recognised")
		}
	}
}

// ------------------------------------------------------------------ CALL-ORDER

func runCallOrder(c *core.Ctx) {
	e := EnvOf(c.Prog)
	isIfaceCall := func(info *types.Info, a ast.Node, name string) (*ast.CallExpr, bool) {
		call, ok := a.(*ast.CallExpr)
		if !ok {
			return nil, false
		}
		return call, an.IsMethodNamed(an.CalleeFunc(info, call), an.PkgDistsys, "ArchetypeInterface", name)
	}
	// ---- Call
	if fn := mustMethod(c, e, an.PkgDistsys, "ArchetypeInterface", "Call"); fn != nil {
		g := e.Graph(fn)
		info := fn.Pkg.Info
		handles, _ := stackVars(fn)
		var returnPC types.Object
		if ps := fn.Decl.Type.Params.List; len(ps) >= 2 && len(ps[1].Names) > 0 {
			returnPC = info.Defs[ps[1].Names[0]]
		}
		// the loop over proc.StateVars
		// (a range statement, or an index loop bounded by len(proc.StateVars))
		type svLoop struct {
			stmt ast.Stmt
			Body *ast.BlockStmt
			Key  ast.Expr
			kind cfg.BlockKind
		}
		var loop *svLoop
		procT := e.Ix.LookupType(an.PkgDistsys, "MPCalProc")
		sv := an.Field(procT, "StateVars")
		ast.Inspect(fn.Body(), func(m ast.Node) bool {
			switch x := m.(type) {
			case *ast.RangeStmt:
				if sv != nil && an.SelectedField(info, x.X) == sv {
					loop = &svLoop{stmt: x, Body: x.Body, Key: x.Key, kind: cfg.KindRangeBody}
				}
			case *ast.ForStmt:
				if sv == nil || x.Cond == nil || x.Init == nil {
					return true
				}
				bounded := false
				ast.Inspect(x.Cond, func(k ast.Node) bool {
					if cl, ok := k.(*ast.CallExpr); ok && an.IsBuiltin(info, cl, "len") && len(cl.Args) == 1 && an.SelectedField(info, cl.Args[0]) == sv {
						bounded = true
					}
					return true
				})
				if as, ok := x.Init.(*ast.AssignStmt); ok && bounded && len(as.Lhs) == 1 {
					loop = &svLoop{stmt: x, Body: x.Body, Key: as.Lhs[0], kind: cfg.KindForBody}
				}
			}
			return true
		})
		if loop == nil || returnPC == nil {
			c.Lost("ArchetypeInterface.Call:loop", "loop over proc.StateVars / returnPC parameter not found")
		} else {
			var reads, writes []ast.Node
			ast.Inspect(loop.Body, func(m ast.Node) bool {
				if call, ok := isIfaceCall(info, m, "Read"); ok && !handles[an.ObjOf(info, call.Args[0])] {
					reads = append(reads, call)
				}
				if call, ok := isIfaceCall(info, m, "Write"); ok && !handles[an.ObjOf(info, call.Args[0])] {
					writes = append(writes, call)
				}
				return true
			})
			if len(reads) == 0 || len(writes) == 0 {
				c.Bad("Call:save-and-bind", loop.stmt.Pos(), "the loop over the callee's state variables does not both Read (save) and Write (bind) each variable")
			}
			for i, w := range writes {
				wc := w.(*ast.CallExpr)
				ok := false
				for _, r := range reads {
					rc := r.(*ast.CallExpr)
					if an.ObjOf(info, rc.Args[0]) == an.ObjOf(info, wc.Args[0]) && g.Dominates(r, w) {
						ok = true
					}
				}
				c.Check(ok, fmt.Sprintf("Call:save-before-bind#%d", i+1), w.Pos(), "the variable is read (saved) before it is overwritten with the argument",
					"a state variable is overwritten with the argument before its current value is saved into the frame: the caller's value is lost")
			}
			// the i-th argument is bound to the i-th state variable, and only while i ranges over the arguments
			if keyObj := an.ObjOf(info, loop.Key); keyObj != nil {
				for i, w := range writes {
					wc := w.(*ast.CallExpr)
					k := fmt.Sprintf("Call:binds-ith-argument#%d", i+1)
					if len(wc.Args) != 3 {
						continue
					}
					ix, ok := an.Unparen(wc.Args[2]).(*ast.IndexExpr)
					if !ok || an.ObjOf(info, ix.Index) != keyObj {
						c.Bad(k, w.Pos(), "the value bound to the i-th state variable is not argVals[i]")
						continue
					}
					args := an.ObjOf(info, ix.X)
					_ = args
					guarded := false
					for _, blk := range g.CFG.Blocks {
						cd, _ := g.Cond(blk)
						if cd == nil {
							continue
						}
						ex := ast.Expr(cd)
						neg := false
						for {
							ex = an.Unparen(ex)
							u, isU := ex.(*ast.UnaryExpr)
							if !isU || u.Op != token.NOT {
								break
							}
							neg = !neg
							ex = u.X
						}
						be, isB := ex.(*ast.BinaryExpr)
						if !isB {
							continue
						}
						isLen := func(x ast.Expr) bool {
							cl, ok := an.Unparen(an.ResolveLocal(info, fn.Body(), x)).(*ast.CallExpr)
							return ok && an.IsBuiltin(info, cl, "len") && len(cl.Args) == 1 && an.ObjOf(info, cl.Args[0]) == args
						}
						isKey := func(x ast.Expr) bool { return an.ObjOf(info, x) == keyObj }
						inRange, known := false, false
						switch {
						case isKey(be.X) && isLen(be.Y):
							switch be.Op {
							case token.LSS:
								inRange, known = true, true
							case token.GEQ:
								inRange, known = false, true
							}
						case isLen(be.X) && isKey(be.Y):
							switch be.Op {
							case token.GTR:
								inRange, known = true, true
							case token.LEQ:
								inRange, known = false, true
							}
						}
						if known && g.GuardedBy(w, cd, inRange != neg) {
							guarded = true
						}
					}
					c.Check(guarded, k, w.Pos(), "argVals[i] is bound only while i < len(argVals)",
						"the binding of argVals[i] is not guarded by i < len(argVals): arguments are not bound (the callee sees the caller's stale values) or locals beyond the arguments index out of range")
				}
			}
			// the saved value goes into the frame builder under the variable's name
			saved := false
			ast.Inspect(loop.Body, func(m ast.Node) bool {
				if call, ok := m.(*ast.CallExpr); ok {
					if f := an.CalleeFunc(info, call); f != nil && f.Name() == "Set" && len(call.Args) == 2 {
						if rn := an.RecvNamed(f); rn != nil && strings.HasSuffix(rn.Obj().Name(), "Builder") {
							saved = true
						}
					}
				}
				return true
			})
			c.Check(saved, "Call:frame-holds-saved-values", loop.stmt.Pos(), "each saved value is stored in the frame", "the saved values are not stored in the frame record")
			// ... for every state variable: each iteration that goes on to the next variable has read the variable and
			// put the value into the frame (no early `continue` for locals beyond the arguments)
			if bb := g.BlockOfStmt(loop.stmt, loop.kind); bb != nil {
				isSave := func(a ast.Node) bool {
					call, ok := a.(*ast.CallExpr)
					if !ok {
						return false
					}
					if f := an.CalleeFunc(info, call); f != nil && f.Name() == "Set" && len(call.Args) == 2 {
						if rn := an.RecvNamed(f); rn != nil && strings.HasSuffix(rn.Obj().Name(), "Builder") {
							return true
						}
					}
					return false
				}
				isRead := func(a ast.Node) bool {
					for _, r := range reads {
						if a == r {
							return true
						}
					}
					return false
				}
				c.Check(g.PassesWithinUnlessExit(bb, loop.Body.Pos(), loop.Body.End(), isRead) && g.PassesWithinUnlessExit(bb, loop.Body.Pos(), loop.Body.End(), isSave),
					"Call:saves-every-state-variable", loop.stmt.Pos(), "every iteration reads the state variable and stores it in the frame",
					"some iteration over the callee's state variables continues without saving the variable into the frame: locals (state variables beyond the arguments) of an outer activation are clobbered by a recursive call and never restored by Return")
			} else {
				c.Lost("Call:loop-body", "CFG block of the state-variable loop body not found")
			}
			// .pc -> returnPC in the frame
			pcStored := false
			ast.Inspect(fn.Body(), func(m ast.Node) bool {
				call, ok := m.(*ast.CallExpr)
				if !ok || len(call.Args) != 2 {
					return true
				}
				f := an.CalleeFunc(info, call)
				if f == nil || f.Name() != "Set" {
					return true
				}
				k, ok1 := an.Unparen(call.Args[0]).(*ast.CallExpr)
				v, ok2 := an.Unparen(call.Args[1]).(*ast.CallExpr)
				if !ok1 || !ok2 || len(k.Args) != 1 || len(v.Args) != 1 {
					return true
				}
				if s, ok := constString(info, k.Args[0]); ok && s == ".pc" && an.ObjOf(info, v.Args[0]) == returnPC {
					pcStored = true
				}
				return true
			})
			c.Check(pcStored, "Call:frame-holds-return-label", fn.Pos(), "the frame maps .pc to the return label", "the frame does not record the return label under .pc")
			// push after the loop, preamble after push, goto last
			var push, pre, gt ast.Node
			var pres []ast.Node
			g.AllAtoms(func(a ast.Node) {
				if call, ok := isIfaceCall(info, a, "Write"); ok && handles[an.ObjOf(info, call.Args[0])] {
					push = a
				}
				if call, ok := a.(*ast.CallExpr); ok {
					if pf := an.Field(procT, "PreAmble"); pf != nil && an.SelectedField(info, call.Fun) == pf {
						pre = a
						pres = append(pres, a)
					}
				}
				if _, ok := isIfaceCall(info, a, "Goto"); ok {
					gt = a
				}
			})
			if push == nil || pre == nil || gt == nil {
				c.Bad("Call:push-preamble-goto", fn.Pos(), "Call must push the frame (write .stack), run the procedure preamble and Goto the first label; one of these is missing")
			} else {
				backToLoop := g.Search(an.Query{From: push, Target: func(a ast.Node) bool {
					for _, r := range reads {
						if a == r {
							return true
						}
					}
					return false
				}})
				c.Check(!backToLoop.Found, "Call:push-after-saving-all", push.Pos(), "the frame is pushed after every variable was saved", "the frame is pushed before all state variables were saved")
				pc := push.(*ast.CallExpr)
				headPush := false
				if vc, ok := an.Unparen(an.ResolveLocal(info, fn.Body(), pc.Args[2])).(*ast.CallExpr); ok && an.IsFuncNamed(an.CalleeFunc(info, vc), an.PkgTLA, "ModuleOSymbol") && len(vc.Args) == 2 {
					// new frame first, old stack second
					_, values := stackVars(fn)
					if values[an.ObjOf(info, vc.Args[1])] {
						headPush = true
					}
				}
				c.Check(headPush, "Call:push-at-head", push.Pos(), "the new frame is prepended: <<frame>> \\o stack", "the new frame is not prepended to the old stack (Return pops the head)")
				allAfter := true
				for _, p := range pres {
					allAfter = allAfter && g.Dominates(push, p)
				}
				c.Check(allAfter, "Call:preamble-after-push", pre.Pos(), "locals are initialised after the old values were saved and pushed", "the procedure preamble runs before the frame is pushed: it would overwrite values not yet saved")
				c.Check(g.Dominates(pre, gt), "Call:goto-last", gt.Pos(), "control transfers to the callee's first label last", "Goto(proc.Label) is not the last step of Call")
			}
		}
	}
	// ---- Return
	if fn := mustMethod(c, e, an.PkgDistsys, "ArchetypeInterface", "Return"); fn != nil {
		info := fn.Pkg.Info
		handles, values := stackVars(fn)
		popTail, restore := false, false
		usesHead := false
		ast.Inspect(fn.Body(), func(m ast.Node) bool {
			call, ok := m.(*ast.CallExpr)
			if !ok {
				return true
			}
			f := an.CalleeFunc(info, call)
			if an.IsMethodNamed(f, an.PkgDistsys, "ArchetypeInterface", "Write") && len(call.Args) == 3 {
				if handles[an.ObjOf(info, call.Args[0])] {
					if vc, ok := an.Unparen(call.Args[2]).(*ast.CallExpr); ok && an.IsFuncNamed(an.CalleeFunc(info, vc), an.PkgTLA, "ModuleTail") && len(vc.Args) == 1 && values[an.ObjOf(info, vc.Args[0])] {
						popTail = true
					}
				}
			}
			if an.IsFuncNamed(f, an.PkgTLA, "ModuleHead") && len(call.Args) == 1 && values[an.ObjOf(info, call.Args[0])] {
				usesHead = true
			}
			return true
		})
		// restore loop: a for loop over an iterator whose body Writes (handle from name, value)
		ast.Inspect(fn.Body(), func(m ast.Node) bool {
			fs, ok := m.(*ast.ForStmt)
			if !ok {
				return true
			}
			// `for !it.Done() { ... }` or `for { if it.Done() { break }; ... }`
			if fs.Cond != nil && len(iteratorDoneCalls(info, fs.Cond)) == 0 {
				return true
			}
			if fs.Cond == nil && len(iteratorDoneCalls(info, fs.Body)) == 0 {
				return true
			}
			isRestore := func(k ast.Node) bool {
				call, ok := k.(*ast.CallExpr)
				return ok && an.IsMethodNamed(an.CalleeFunc(info, call), an.PkgDistsys, "ArchetypeInterface", "Write") && len(call.Args) == 3 && !handles[an.ObjOf(info, call.Args[0])]
			}
			has := false
			ast.Inspect(fs.Body, func(k ast.Node) bool {
				if isRestore(k) {
					has = true
				}
				return true
			})
			if !has {
				return true
			}
			// ... on every path of an iteration: a pair that is put back some other way (straight into the variable's cell,
			// say) is not marked dirty, so its rollback copy keeps the callee's value and a later abort of the caller
			// resurrects it
			g := e.Graph(fn)
			// leaving the loop because the iterator is exhausted (`if it.Done() { break }` in a condition-less loop) is not
			// an iteration
			doneBreak := func(k ast.Node) bool {
				br, isBr := k.(*ast.BranchStmt)
				if !isBr || br.Tok != token.BREAK {
					return false
				}
				enc := g.Enclosing(k, func(m ast.Node) bool { _, isIf := m.(*ast.IfStmt); return isIf })
				is, _ := enc.(*ast.IfStmt)
				return is != nil && len(iteratorDoneCalls(info, is.Cond)) > 0 && len(is.Body.List) == 1
			}
			_ = doneBreak
			start, lo := g.BlockOfStmt(fs, cfg.KindForBody), fs.Body.Pos()
			if fs.Cond == nil && len(fs.Body.List) > 0 {
				if is, isIf := fs.Body.List[0].(*ast.IfStmt); isIf && is.Else == nil && len(iteratorDoneCalls(info, is.Cond)) > 0 && len(is.Body.List) == 1 {
					if br, isBr := is.Body.List[0].(*ast.BranchStmt); isBr && br.Tok == token.BREAK {
						// the iteration proper starts behind the exhaustion test
						start, lo = g.BlockOfStmt(is, cfg.KindIfDone), is.End()
					}
				}
			}
			if start != nil && g.PassesWithinUnlessExit(start, lo, fs.Body.End(), isRestore) {
				restore = true
			}
			return true
		})
		c.Check(popTail, "Return:pops-with-Tail", fn.Pos(), ".stack := Tail(.stack)", "Return does not write Tail(stack) back to the .stack cell: the frame is not popped")
		c.Check(usesHead, "Return:restores-from-Head", fn.Pos(), "the frame restored is Head(.stack)", "Return does not take Head(stack) as the frame to restore")
		c.Check(restore, "Return:writes-every-saved-pair", fn.Pos(), "every (name, value) pair of the frame is written back through iface.Write, on every path of the loop", "Return does not write every saved pair of the frame back to its variable through iface.Write (some iteration continues without it): a variable restored behind the driver's back is not marked dirty, and a later abort brings the callee's value back")
	}
	// ---- by-reference parameters: the indirection is followed on every use (Call/Return rewrite the pointer cell)
	if fn := mustMethod(c, e, an.PkgDistsys, "ArchetypeInterface", "RequireArchetypeResourceRef"); fn != nil {
		info := fn.Pkg.Info
		g := e.Graph(fn)
		iface := resourceIface(c, e)
		reads := g.FindAtoms(func(a ast.Node) bool {
			call, ok := a.(*ast.CallExpr)
			if !ok || iface == nil {
				return false
			}
			name, _, ok := lifecycleCall(info, call, iface)
			return ok && name == "ReadValue"
		})
		okRef := len(reads) > 0
		for _, r := range g.FindAtoms(func(a ast.Node) bool {
			rs, ok := a.(*ast.ReturnStmt)
			return ok && len(rs.Results) == 2 && isNilIdent(info, rs.Results[1])
		}) {
			dom := false
			for _, rd := range reads {
				if g.Dominates(rd, r) {
					dom = true
				}
			}
			if !dom {
				okRef = false
			}
		}
		c.Check(okRef, "RequireArchetypeResourceRef:reads-pointer-every-time", fn.Pos(), "every successful return follows a read of the pointer cell in this call",
			"a by-reference handle can be returned without reading the pointer cell (e.g. from a cache): Call and Return rewrite that cell for every activation, so later activations of a procedure keep acting on the variable passed to the first one")
	}
	// ---- TailCall
	if fn := mustMethod(c, e, an.PkgDistsys, "ArchetypeInterface", "TailCall"); fn != nil {
		g := e.Graph(fn)
		info := fn.Pkg.Info
		var ret, call2 ast.Node
		g.AllAtoms(func(a ast.Node) {
			if _, ok := isIfaceCall(info, a, "Return"); ok {
				ret = a
			}
			if _, ok := isIfaceCall(info, a, "Call"); ok {
				call2 = a
			}
		})
		if ret == nil || call2 == nil {
			c.Bad("TailCall:return-then-call", fn.Pos(), "TailCall must perform Return() and then Call(...)")
		} else {
			c.Check(g.Dominates(ret, call2), "TailCall:return-then-call", call2.Pos(), "Return() precedes Call(...)", "Call(...) is not preceded by Return(): the current frame is never dropped")
			// no other way out: every return of TailCall hands back an error it holds, or the result of Call(...)
			okExits := true
			for _, r := range g.FindAtoms(func(a ast.Node) bool { _, ok := a.(*ast.ReturnStmt); return ok }) {
				rs := r.(*ast.ReturnStmt)
				if len(rs.Results) != 1 {
					okExits = false
					continue
				}
				if an.Unparen(rs.Results[0]) == call2.(ast.Expr) {
					continue
				}
				if o := an.ObjOf(info, rs.Results[0]); o != nil && types.Identical(o.Type(), types.Universe.Lookup("error").Type()) {
					continue
				}
				okExits = false
			}
			c.Check(okExits, "TailCall:no-shortcut", fn.Pos(), "every exit is an error it holds or the result of Call(...)",
				"TailCall has an exit that bypasses Return()+Call(...) (a shortcut): the callee's preamble does not run, so the new activation inherits the previous activation's locals instead of freshly initialised ones")
			// second argument of Call derives from a variable defined before Return()
			cc := call2.(*ast.CallExpr)
			ok := false
			if len(cc.Args) >= 2 {
				var root types.Object
				ast.Inspect(cc.Args[1], func(m ast.Node) bool {
					if id, isID := m.(*ast.Ident); isID && root == nil {
						if v, isVar := info.Uses[id].(*types.Var); isVar && !v.IsField() {
							root = v
						}
					}
					return true
				})
				if root != nil {
					// definition of root dominates Return()
					ast.Inspect(fn.Body(), func(m ast.Node) bool {
						if as, isAs := m.(*ast.AssignStmt); isAs {
							for _, l := range as.Lhs {
								if id, isID := l.(*ast.Ident); isID && info.Defs[id] == root && g.Dominates(as, ret) {
									ok = true
								}
							}
						}
						return true
					})
				}
			}
			c.Check(ok, "TailCall:return-label-taken-before-Return", call2.Pos(), "the return label passed to Call was read from the frame before Return() popped it",
				"the return label passed to Call is not taken from the frame before Return(): the callee would return to the wrong place")
		}
	}
}

// drainsParam: callee ranges over its idx-th parameter and receives from the range value on every path of the loop body,
// and the loop is on every path of the callee.
func drainsParam(e *Env, callee *an.Func, idx int) bool {
	info := callee.Pkg.Info
	var param types.Object
	k := 0
	for _, fl := range callee.Decl.Type.Params.List {
		for _, nm := range fl.Names {
			if k == idx {
				param = info.Defs[nm]
			}
			k++
		}
	}
	if param == nil {
		return false
	}
	g := e.Graph(callee)
	ok := false
	ast.Inspect(callee.Body(), func(m ast.Node) bool {
		rs, isR := m.(*ast.RangeStmt)
		if !isR || an.ObjOf(info, rs.X) != param || rs.Value == nil {
			return true
		}
		val := an.ObjOf(info, rs.Value)
		bb := g.BlockOfStmt(rs, cfg.KindRangeBody)
		if bb == nil {
			return true
		}
		recvs := g.PassesWithin(bb, rs.Body.Pos(), rs.Body.End(), func(a ast.Node) bool {
			u, isU := a.(*ast.UnaryExpr)
			return isU && u.Op == token.ARROW && an.ObjOf(info, u.X) == val
		})
		always, _ := g.MustPass(nil, func(a ast.Node) bool { return a == ast.Node(rs.X) }, nil)
		if recvs && always {
			ok = true
		}
		return true
	})
	return ok
}

// resolveAnywhere is an.ResolveLocal for callers that do not know the enclosing function: a single-definition local
// stands for its defining expression; the body is found from the identifier's position.
func resolveAnywhere(e *Env, info *types.Info, x ast.Expr) ast.Expr {
	id, ok := an.Unparen(x).(*ast.Ident)
	if !ok {
		return x
	}
	for _, fn := range e.Ix.Funcs() {
		if fn.Pkg.Info != info || fn.Body() == nil {
			continue
		}
		if fn.Decl.Pos() <= id.Pos() && id.End() <= fn.Decl.End() {
			return an.ResolveLocal(info, fn.Body(), x)
		}
	}
	return x
}

// errCopies: the variables an error value may be copied into inside body (`w = v`, `w := v`, transitively), including v.
func errCopies(info *types.Info, body ast.Node, v types.Object) map[types.Object]bool {
	set := map[types.Object]bool{v: true}
	for changed := true; changed; {
		changed = false
		ast.Inspect(body, func(m ast.Node) bool {
			if as, ok := m.(*ast.AssignStmt); ok && len(as.Lhs) == len(as.Rhs) {
				for i := range as.Lhs {
					l, r := an.ObjOf(info, as.Lhs[i]), an.ObjOf(info, as.Rhs[i])
					if l != nil && r != nil && set[r] && !set[l] {
						set[l] = true
						changed = true
					}
				}
			}
			return true
		})
	}
	return set
}
