package rules

import (
	"fmt"
	"go/ast"
	"go/token"
	"go/types"

	"pgoverif/checker/an"
	"pgoverif/checker/core"
)

func init() {
	register(&core.Rule{ID: "FD-HANDSHAKE", Props: []string{"C17"}, Floor: 5,
		Doc: "closing a failure detector cannot hang: Close hands the polling loop its stop token (a blocking send on the unbuffered done channel) exactly when it is the first Close and the loop has announced itself; the loop announces itself (started) exactly when it was not closed first; test and announcement, and test and hand-over, happen within one hold of the write lock, so that neither side can act on a stale answer. Otherwise Close blocks for ever holding the lock - the clean-up of Run never finishes and every Stop hangs",
		Run: runFDHandshake})
}

func runFDHandshake(c *core.Ctx) {
	e := EnvOf(c.Prog)
	t := mustType(c, e, an.PkgResources, "SingleFailureDetector")
	if t == nil {
		return
	}
	lock, done := mustField(c, t, "execLock"), mustField(c, t, "done")
	started, closing := mustField(c, t, "started"), mustField(c, t, "closing")
	if lock == nil || done == nil || started == nil || closing == nil {
		return
	}
	sendDone := func(info *types.Info, n ast.Node) bool {
		s, ok := n.(*ast.SendStmt)
		return ok && an.SelectedField(info, s.Chan) == done
	}
	storeTrue := func(f *types.Var) func(*types.Info, ast.Node) bool {
		return func(info *types.Info, n ast.Node) bool {
			as, ok := n.(*ast.AssignStmt)
			return ok && len(as.Lhs) == 1 && len(as.Rhs) == 1 && an.SelectedField(info, as.Lhs[0]) == f && isBoolConst(info, as.Rhs[0], true)
		}
	}
	rows := []dtRow{
		{fn: "SingleFailureDetector.Close", key: "hands-over-the-stop-token-only-to-a-running-loop", why: "the blocking send has a receiver: the loop announced itself, and this is the first Close", find: sendDone,
			bools: []string{"$.closing", "$.started"}, ref: func(a dtAtoms) bool { return !a.B("$.closing") && a.B("$.started") }},
		{fn: "SingleFailureDetector.mainLoop", key: "announces-itself-unless-closed-first", why: "a loop that found the detector closed leaves without announcing itself, any other loop announces itself", find: storeTrue(started),
			bools: []string{"$.closing"}, ref: func(a dtAtoms) bool { return !a.B("$.closing") }},
	}
	runDecisionRows(c, e, an.PkgResources, "SingleFailureDetector", rows)

	// one hold of the write lock spans the test and the action
	lockCall := func(info *types.Info, name string) func(ast.Node) bool {
		return func(n ast.Node) bool {
			call, ok := n.(*ast.CallExpr)
			if !ok {
				return false
			}
			sel, ok := an.Unparen(call.Fun).(*ast.SelectorExpr)
			return ok && sel.Sel.Name == name && an.SelectedField(info, sel.X) == lock
		}
	}
	reads := func(info *types.Info, f *types.Var) func(ast.Node) bool {
		return func(n ast.Node) bool {
			found := false
			ast.Inspect(n, func(m ast.Node) bool {
				if _, isLit := m.(*ast.FuncLit); isLit {
					return false
				}
				if ex, ok := m.(ast.Expr); ok && an.SelectedField(info, ex) == f {
					if as, isAs := n.(*ast.AssignStmt); isAs && len(as.Lhs) == 1 && as.Lhs[0] == ex {
						return true
					}
					found = true
				}
				return true
			})
			return found
		}
	}
	check := func(method, key string, testOf *types.Var, action func(*types.Info, ast.Node) bool, what string) {
		fn := mustMethod(c, e, an.PkgResources, "SingleFailureDetector", method)
		if fn == nil {
			return
		}
		info := fn.Pkg.Info
		g := e.Graph(fn)
		isAction := func(n ast.Node) bool { return action(info, n) }
		acts := g.FindAtoms(isAction)
		if len(acts) == 0 {
			c.Lost("SingleFailureDetector."+method+":"+key, "%s not found", what)
			return
		}
		isLock, isUnlock := lockCall(info, "Lock"), lockCall(info, "Unlock")
		bad := ""
		// the action is reached only with the write lock taken ...
		if p := g.Search(an.Query{Target: isAction, Avoid: isLock}); p.Found {
			bad = what + " is reachable without execLock.Lock()"
		}
		// ... and not released since, nor between the test and the action
		for _, u := range g.FindAtoms(isUnlock) {
			if p := g.Search(an.Query{From: u, Target: isAction, Avoid: isLock}); p.Found {
				bad = what + " is reachable after execLock was released"
			}
		}
		tests := g.FindAtoms(reads(info, testOf))
		if len(tests) == 0 && bad == "" {
			bad = "the flag " + testOf.Name() + " is not consulted"
		}
		for _, tst := range tests {
			if p := g.Search(an.Query{Target: func(n ast.Node) bool { return n == tst }, Avoid: isLock}); p.Found {
				bad = "the flag " + testOf.Name() + " is read without execLock.Lock()"
			}
			for _, u := range g.FindAtoms(isUnlock) {
				p1 := g.Search(an.Query{From: tst, Target: func(n ast.Node) bool { return n == u }, Avoid: isAction})
				p2 := g.Search(an.Query{From: u, Target: isAction})
				if p1.Found && p2.Found {
					bad = "execLock is released between the test of " + testOf.Name() + " and " + what
				}
			}
		}
		c.Check(bad == "", "SingleFailureDetector."+method+":"+key, acts[0].Pos(), "test and action within one hold of the write lock", bad+": the other side can change its mind in between, and Close then waits for a loop that is not there (or the loop misses its stop token)")
	}
	// a loop that announced itself leaves only by taking the stop token: Close's hand-over is a blocking send, so any other
	// way out of the polling loop (a break on a final verdict, a return on an error) leaves Close without a receiver
	if fn := mustMethod(c, e, an.PkgResources, "SingleFailureDetector", "mainLoop"); fn != nil {
		info := fn.Pkg.Info
		var loop ast.Stmt
		var loopLabel string
		var doneClause *ast.CommClause
		var labels = map[ast.Stmt]string{}
		ast.Inspect(fn.Body(), func(m ast.Node) bool {
			if ls, ok := m.(*ast.LabeledStmt); ok {
				labels[ls.Stmt] = ls.Label.Name
			}
			return true
		})
		var stack []ast.Node
		ast.Inspect(fn.Body(), func(m ast.Node) bool {
			if m == nil {
				stack = stack[:len(stack)-1]
				return true
			}
			stack = append(stack, m)
			cc, ok := m.(*ast.CommClause)
			if !ok || cc.Comm == nil || doneClause != nil {
				return true
			}
			isDone := false
			ast.Inspect(cc.Comm, func(k ast.Node) bool {
				if u, ok := k.(*ast.UnaryExpr); ok && u.Op == token.ARROW && an.SelectedField(info, u.X) == done {
					isDone = true
				}
				return true
			})
			if !isDone {
				return true
			}
			doneClause = cc
			for k := len(stack) - 1; k >= 0; k-- {
				switch x := stack[k].(type) {
				case *ast.ForStmt:
					loop, loopLabel = x, labels[x]
				case *ast.RangeStmt:
					loop, loopLabel = x, labels[x]
				}
				if loop != nil {
					break
				}
			}
			return true
		})
		if loop == nil || doneClause == nil {
			c.Lost("SingleFailureDetector.mainLoop:leaves-only-with-the-stop-token", "the polling loop / its receive from done was not found")
		} else {
			bad := ""
			var walk func(n ast.Node, breakable int)
			walk = func(n ast.Node, breakable int) {
				ast.Inspect(n, func(m ast.Node) bool {
					if m == nil || m == n {
						return true
					}
					if m.Pos() >= doneClause.Pos() && m.End() <= doneClause.End() {
						return false // leaving from inside the arm that took the token is the way out
					}
					switch x := m.(type) {
					case *ast.FuncLit:
						return false
					case *ast.ForStmt, *ast.RangeStmt, *ast.SwitchStmt, *ast.TypeSwitchStmt, *ast.SelectStmt:
						walk(m, breakable+1)
						return false
					case *ast.ReturnStmt:
						bad = fmt.Sprintf("a return at line %d", c.Prog.Fset.Position(x.Pos()).Line)
					case *ast.BranchStmt:
						switch {
						case x.Tok == token.GOTO:
							bad = fmt.Sprintf("a goto at line %d", c.Prog.Fset.Position(x.Pos()).Line)
						case x.Tok == token.BREAK && x.Label != nil && x.Label.Name == loopLabel && loopLabel != "":
							bad = fmt.Sprintf("`break %s` at line %d", loopLabel, c.Prog.Fset.Position(x.Pos()).Line)
						case x.Tok == token.BREAK && x.Label == nil && breakable == 0:
							bad = fmt.Sprintf("a break at line %d", c.Prog.Fset.Position(x.Pos()).Line)
						}
					}
					return true
				})
			}
			var body *ast.BlockStmt
			switch x := loop.(type) {
			case *ast.ForStmt:
				body = x.Body
			case *ast.RangeStmt:
				body = x.Body
			}
			walk(body, 0)
			c.Check(bad == "", "SingleFailureDetector.mainLoop:leaves-only-with-the-stop-token", loop.Pos(), "every way out of the polling loop lies in the arm that received from done",
				"the polling loop can end through "+bad+" without having received the stop token: Close then blocks for ever on its hand-over, holding the lock - the clean-up of Run never finishes and every Stop hangs")
		}
	}
	check("mainLoop", "announces-under-the-lock", closing, storeTrue(started), "the announcement (started = true)")
	check("Close", "hands-over-under-the-lock", started, sendDone, "the hand-over of the stop token (done <- ...)")
}
