package rules

import (
	"go/ast"
	"go/types"

	"pgoverif/checker/an"
	"pgoverif/checker/core"
)

func init() {
	register(&core.Rule{ID: "LEN-CLOCK", Props: []string{"C18"}, Floor: 2,
		Doc: "the mailbox-length view (tcpMailboxesLocal.length / relaxedMailboxesLocal.length) returns its count wrapped with a clock merged over exactly the pending messages it counted: the merge loop ranges over the backlog as it is after the pending record was drained into it (the field itself, or a local copy taken after the last store to the field), every element's clock is folded into the accumulator, and that accumulator is the clock of the returned value",
		Run: runLenClock})
}

// currentView reports whether expression x, evaluated at atom `at`, denotes the current contents of field f:
// the field itself, or a single-definition local copied from it with no store to the field between the copy and `at`.
func currentView(g *an.Graph, info *types.Info, body ast.Node, x ast.Expr, at ast.Node, f *types.Var) (isField, fresh bool) {
	x = an.Unparen(x)
	if an.SelectedField(info, x) == f {
		return true, true
	}
	id, ok := x.(*ast.Ident)
	if !ok {
		return false, false
	}
	def := an.SingleDef(info, body, info.ObjectOf(id))
	if def == nil || an.SelectedField(info, def) != f {
		return false, false
	}
	defAtom := g.AtomOf(def)
	if defAtom == nil || at == nil {
		return true, false
	}
	for _, st := range g.FindAtoms(func(a ast.Node) bool { _, is := fieldIsAssigned(info, a, f); return is }) {
		if st == defAtom {
			continue
		}
		if g.Search(an.Query{From: defAtom, Target: func(y ast.Node) bool { return y == st }}).Found &&
			g.Search(an.Query{From: st, Target: func(y ast.Node) bool { return y == at }}).Found {
			return true, false
		}
	}
	return true, true
}

func runLenClock(c *core.Ctx) {
	e := EnvOf(c.Prog)
	for _, typ := range []string{"tcpMailboxesLocal", "relaxedMailboxesLocal"} {
		t := mustType(c, e, an.PkgResources, typ)
		fn := mustMethod(c, e, an.PkgResources, typ, "length")
		if t == nil || fn == nil {
			continue
		}
		backlog := mustField(c, t, "readBacklog")
		if backlog == nil {
			continue
		}
		info := fn.Pkg.Info
		g := e.Graph(fn)
		tk := an.TypeKey(t)
		// the merge loop: a range statement whose body folds GetVClock() results with Merge
		var loop ast.Stmt
		var loopX ast.Expr
		var acc types.Object
		ast.Inspect(fn.Body(), func(n ast.Node) bool {
			st, isStmt := n.(ast.Stmt)
			if !isStmt || loop != nil {
				return true
			}
			body, x, isLoop := perElementLoop(info, st, func(ast.Expr) bool { return true })
			if !isLoop {
				return true
			}
			gets := false
			var merged types.Object
			ast.Inspect(body, func(m ast.Node) bool {
				switch x2 := m.(type) {
				case *ast.CallExpr:
					if f := an.CalleeFunc(info, x2); an.IsMethodNamed(f, an.PkgTLA, "Value", "GetVClock") {
						if sel, ok := an.Unparen(x2.Fun).(*ast.SelectorExpr); ok && isLoopElement(info, st, x, sel.X) {
							gets = true
						}
					}
				case *ast.AssignStmt:
					if len(x2.Lhs) == 1 && len(x2.Rhs) == 1 {
						if call, ok := an.Unparen(x2.Rhs[0]).(*ast.CallExpr); ok && an.IsMethodNamed(an.CalleeFunc(info, call), an.PkgTLA, "VClock", "Merge") {
							if sel, ok := an.Unparen(call.Fun).(*ast.SelectorExpr); ok && an.ObjOf(info, sel.X) != nil && an.ObjOf(info, sel.X) == an.ObjOf(info, x2.Lhs[0]) {
								merged = an.ObjOf(info, x2.Lhs[0])
							}
						}
					}
				}
				return true
			})
			if gets && merged != nil {
				loop, loopX, acc = st, x, merged
			}
			return true
		})
		if loop == nil {
			c.Lost(tk+".length:clock-merge-loop", "no range loop folding GetVClock() into an accumulator with Merge")
			continue
		}
		isF, fresh := currentView(g, info, fn.Body(), loopX, g.AtomOf(loopX), backlog)
		c.Check(isF && fresh, tk+".length:clock-covers-what-is-counted", loop.Pos(), "the merge loop ranges over the backlog as it is after the drain",
			"the clock of the length view is merged over something other than the current backlog (a copy taken before the pending record was drained, or another slice): the count includes messages whose senders' clocks are missing from the value, so the trace shows the reader acting on a message before it was sent")
		// the accumulator is the clock of the returned value, and the count is of the same current backlog
		okRet, n := true, 0
		for _, r := range g.FindAtoms(func(a ast.Node) bool { _, ok := a.(*ast.ReturnStmt); return ok }) {
			rs := r.(*ast.ReturnStmt)
			if len(rs.Results) != 1 {
				continue
			}
			n++
			call, ok := an.Unparen(rs.Results[0]).(*ast.CallExpr)
			f := an.CalleeFunc(info, call)
			if !ok || f == nil || f.Name() != "WrapCausal" || len(call.Args) != 2 || !flowsFrom(g, info, fn.Body(), call.Args[1], r, acc, loop, 0) {
				okRet = false
				continue
			}
			for _, part := range withLocalDefs(info, fn.Body(), call.Args[0]) {
				at := ast.Node(r)
				if part != call.Args[0] {
					at = g.AtomOf(part)
				}
				ast.Inspect(part, func(m ast.Node) bool {
					if lc, ok := m.(*ast.CallExpr); ok && an.IsBuiltin(info, lc, "len") && len(lc.Args) == 1 {
						if isF2, fresh2 := currentView(g, info, fn.Body(), lc.Args[0], at, backlog); !isF2 || !fresh2 {
							okRet = false
						}
						// a count taken into a local must not be older than the last store to the field either
						if part != call.Args[0] && an.SelectedField(info, lc.Args[0]) == backlog {
							for _, st := range g.FindAtoms(func(a ast.Node) bool { _, is := fieldIsAssigned(info, a, backlog); return is }) {
								if g.Search(an.Query{From: at, Target: func(y ast.Node) bool { return y == st }}).Found {
									okRet = false
								}
							}
						}
					}
					return true
				})
			}
		}
		c.Check(okRet && n > 0, tk+".length:returns-count-with-merged-clock", fn.Pos(), "every return wraps the count of the current backlog with the accumulated clock",
			"length() returns its count without the accumulated clock, or counts a stale copy of the backlog")
	}
}
