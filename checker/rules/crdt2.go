package rules

import (
	"fmt"
	"go/ast"
	"go/token"
	"go/types"

	"pgoverif/checker/an"
	"pgoverif/checker/core"
)

func init() {
	register(&core.Rule{ID: "GOB-FRESH", Props: []string{"C05", "C06", "C12", "C13"}, Floor: 8,
		Doc: "a gob Decode inside a loop decodes into a variable declared inside that loop (fresh per iteration): gob omits zero-valued fields on the wire and leaves the destination untouched, so a reused destination keeps the previous element's fields",
		Run: runGobFresh})
	register(&core.Rule{ID: "OPERAND-TRAVERSED", Props: []string{"C12", "C13"}, Floor: 4,
		Doc: "binary lattice operations look at all of their operands: every map component of Merge's argument, and both operands of the clock comparison, is iterated (or handed to a helper) on every path - directly or through a local alias of exactly that operand",
		Run: runOperandTraversed})
	register(&core.Rule{ID: "WRITE-UNCOND", Props: []string{"C12"}, Floor: 2,
		Doc: "a set CRDT's Write records the operation in the component map of that operation on every path of that operation's arm (never conditional on the element's current membership): a locally 'redundant' add/remove is still an update other replicas must see",
		Run: runWriteUncond})
}

// ---------------------------------------------------------------- GOB-FRESH

func runGobFresh(c *core.Ctx) {
	e := EnvOf(c.Prog)
	n := 0
	for _, fn := range e.Ix.Funcs() {
		info := fn.Pkg.Info
		counts := 0
		var loops []ast.Node
		var visit func(n ast.Node) bool
		visit = func(m ast.Node) bool {
			switch x := m.(type) {
			case *ast.ForStmt:
				loops = append(loops, x)
				ast.Inspect(x.Body, visit)
				loops = loops[:len(loops)-1]
				return false
			case *ast.RangeStmt:
				loops = append(loops, x)
				ast.Inspect(x.Body, visit)
				loops = loops[:len(loops)-1]
				return false
			case *ast.FuncLit:
				// a literal started per iteration still shares captured variables
				return true
			case *ast.CallExpr:
				f := an.CalleeFunc(info, x)
				if f == nil || f.Name() != "Decode" || f.Pkg() == nil || f.Pkg().Path() != "encoding/gob" || len(x.Args) != 1 {
					return true
				}
				u, ok := an.Unparen(x.Args[0]).(*ast.UnaryExpr)
				if !ok || u.Op != token.AND {
					return true
				}
				dst := an.ObjOf(info, u.X)
				if dst == nil || len(loops) == 0 {
					return true
				}
				n++
				counts++
				key := fmt.Sprintf("%s:Decode#%d", fn.Name(), counts)
				inner := loops[len(loops)-1]
				var body *ast.BlockStmt
				switch l := inner.(type) {
				case *ast.ForStmt:
					body = l.Body
				case *ast.RangeStmt:
					body = l.Body
				}
				fresh := dst.Pos() >= body.Pos() && dst.Pos() < body.End()
				if !fresh {
					// accepted: reset to the zero value inside the loop before the Decode (x = T{} / *new(T))
					ast.Inspect(body, func(k ast.Node) bool {
						as, ok := k.(*ast.AssignStmt)
						if ok && as.Pos() < x.Pos() && len(as.Lhs) == 1 && an.ObjOf(info, as.Lhs[0]) == dst && len(as.Rhs) == 1 {
							if cl, ok := an.Unparen(as.Rhs[0]).(*ast.CompositeLit); ok && len(cl.Elts) == 0 {
								fresh = true
							}
						}
						return true
					})
				}
				// scalar destinations (ints, strings, bools) are fully overwritten unless zero - which gob also skips
				c.Check(fresh, key, x.Pos(), "decodes into a variable that is fresh in every iteration",
					"gob Decode in a loop writes into `"+dst.Name()+"`, declared outside the loop: fields that are zero on the wire keep the previous iteration's values (gob does not transmit zero values), so the decoded state differs from the encoded one")
			}
			return true
		}
		ast.Inspect(fn.Body(), visit)
	}
	c.Count("gob Decode calls inside loops", n)
}

// ---------------------------------------------------------------- OPERAND-TRAVERSED

func runOperandTraversed(c *core.Ctx) {
	e := EnvOf(c.Prog)
	crdtI := e.Ix.LookupType(an.PkgResources, "CRDTValue")
	if crdtI == nil {
		c.Lost("resources.CRDTValue", "interface not found")
		return
	}
	isMapLike := func(t types.Type) bool {
		if p, ok := t.(*types.Pointer); ok {
			t = p.Elem()
		}
		n := an.NamedOf(t)
		return n != nil && n.Obj().Pkg() != nil && n.Obj().Pkg().Path() == "github.com/benbjohnson/immutable" && n.Obj().Name() == "Map"
	}
	// components of a CRDT value type: its map-typed fields ("" = the embedded map itself)
	components := func(t *types.Named) []*types.Var {
		st, ok := t.Underlying().(*types.Struct)
		if !ok {
			return nil
		}
		var out []*types.Var
		for i := 0; i < st.NumFields(); i++ {
			if isMapLike(st.Field(i).Type()) {
				out = append(out, st.Field(i))
			}
		}
		return out
	}
	check := func(fn *an.Func, operand types.Object, t *types.Named, what string) {
		info := fn.Pkg.Info
		g := e.Graph(fn)
		// rootedAt: expression denotes the operand, a type assertion of it, or an alias variable of exactly that
		aliases := map[types.Object]ast.Expr{}
		var rooted func(x ast.Expr) (isOperand bool, comp *types.Var)
		rooted = func(x ast.Expr) (bool, *types.Var) {
			x = an.Unparen(x)
			switch v := x.(type) {
			case *ast.Ident:
				if info.Uses[v] == operand {
					return true, nil
				}
				if src, ok := aliases[info.Uses[v]]; ok {
					return rooted(src)
				}
			case *ast.TypeAssertExpr:
				return rooted(v.X)
			case *ast.SelectorExpr:
				if ok, comp := rooted(v.X); ok && comp == nil {
					if f := an.SelectedField(info, v); f != nil {
						return true, f
					}
				}
			}
			return false, nil
		}
		ast.Inspect(fn.Body(), func(m ast.Node) bool {
			as, ok := m.(*ast.AssignStmt)
			if !ok || as.Tok != token.DEFINE || len(as.Lhs) != 1 || len(as.Rhs) != 1 {
				return true
			}
			if o := info.Defs[as.Lhs[0].(*ast.Ident)]; o != nil {
				if ok, _ := rooted(as.Rhs[0]); ok {
					// only single-assignment aliases
					reassigned := false
					ast.Inspect(fn.Body(), func(k ast.Node) bool {
						if a2, ok := k.(*ast.AssignStmt); ok && a2 != as {
							for _, l := range a2.Lhs {
								if an.ObjOf(info, l) == o {
									reassigned = true
								}
							}
						}
						return true
					})
					if !reassigned {
						aliases[o] = as.Rhs[0]
					}
				}
			}
			return true
		})
		comps := components(t)
		embedded := false
		if st, ok := t.Underlying().(*types.Struct); ok {
			for i := 0; i < st.NumFields(); i++ {
				if st.Field(i).Embedded() && isMapLike(st.Field(i).Type()) {
					embedded = true
				}
			}
		}
		type want struct {
			name string
			comp *types.Var
		}
		var wants []want
		if embedded {
			wants = append(wants, want{"(the map itself)", nil})
		} else {
			for _, f := range comps {
				wants = append(wants, want{f.Name(), f})
			}
		}
		for _, w := range wants {
			traverses := func(a ast.Node) bool {
				call, ok := a.(*ast.CallExpr)
				if !ok {
					return false
				}
				match := func(x ast.Expr) bool {
					ok, comp := rooted(x)
					if !ok {
						return false
					}
					if w.comp == nil {
						// embedded: the operand itself, or its embedded map field
						return comp == nil || comp.Embedded()
					}
					return comp == w.comp
				}
				if sel, ok := an.Unparen(call.Fun).(*ast.SelectorExpr); ok && sel.Sel.Name == "Iterator" && match(sel.X) {
					return true
				}
				for _, arg := range call.Args {
					if match(arg) {
						return true
					}
				}
				return false
			}
			ok, _ := g.MustPass(nil, traverses, nil)
			c.Check(ok, fmt.Sprintf("%s:%s.%s", fn.Name(), what, w.name), fn.Pos(), "iterated (or handed to a helper) on every path",
				"component "+w.name+" of "+what+" is not traversed on every path of "+fn.Name()+": entries present only on that side are ignored, so the result depends on which replica happens to hold more entries (merge order / comparison becomes asymmetric)")
		}
	}
	for _, t := range e.Ix.Implementations(an.InterfaceOf(crdtI)) {
		if t.Obj().Pkg() == nil || t.Obj().Pkg().Path() != an.PkgResources {
			continue
		}
		if fn := e.Ix.MethodDecl(t, "Merge"); fn != nil && fn.Decl.Type.Params != nil && len(fn.Decl.Type.Params.List) == 1 && len(fn.Decl.Type.Params.List[0].Names) == 1 {
			check(fn, fn.Pkg.Info.Defs[fn.Decl.Type.Params.List[0].Names[0]], t, "the other replica's state")
		}
	}
	// symmetric observations: methods with a parameter of the receiver's own type that do not return that type
	for _, fn := range e.Ix.Funcs() {
		if fn.Pkg.Path != an.PkgResources || fn.Decl == nil || fn.Decl.Recv == nil {
			continue
		}
		r := an.RecvNamed(fn.Obj)
		if r == nil || !types.Implements(r, an.InterfaceOf(crdtI)) && !types.Implements(types.NewPointer(r), an.InterfaceOf(crdtI)) {
			continue
		}
		sig := fn.Obj.Type().(*types.Signature)
		if sig.Params().Len() != 1 || an.NamedOf(sig.Params().At(0).Type()) != r {
			continue
		}
		if sig.Results().Len() == 1 && an.NamedOf(sig.Results().At(0).Type()) == r {
			continue // accumulating form (merge): covered through Merge
		}
		info := fn.Pkg.Info
		if len(fn.Decl.Recv.List) == 1 && len(fn.Decl.Recv.List[0].Names) == 1 && len(fn.Decl.Type.Params.List[0].Names) == 1 {
			check(fn, info.Defs[fn.Decl.Recv.List[0].Names[0]], r, "the receiver")
			check(fn, info.Defs[fn.Decl.Type.Params.List[0].Names[0]], r, "the argument")
		}
	}
}

// ---------------------------------------------------------------- WRITE-UNCOND

func runWriteUncond(c *core.Ctx) {
	e := EnvOf(c.Prog)
	// the operation's own component map is stored into (Set) exactly on the paths of that operation, whatever else is
	// known about the element: atoms the rows do not declare (membership tests, lookups) must not matter
	storeInto := func(field string) func(info *types.Info, n ast.Node) bool {
		return func(info *types.Info, n ast.Node) bool {
			as, ok := n.(*ast.AssignStmt)
			if !ok || len(as.Lhs) != 1 || len(as.Rhs) != 1 {
				return false
			}
			f := an.SelectedField(info, as.Lhs[0])
			if f == nil || f.Name() != field {
				return false
			}
			call, ok := an.Unparen(as.Rhs[0]).(*ast.CallExpr)
			if !ok {
				return false
			}
			sel, ok := an.Unparen(call.Fun).(*ast.SelectorExpr)
			return ok && sel.Sel.Name == "Set" && an.SelectedField(info, sel.X) == f
		}
	}
	var rows []dtRow
	for _, w := range []struct{ typ, addField, remField string }{{"LWWSet", "addSet", "remSet"}, {"AWORSet", "addMap", "remMap"}} {
		if mustType(c, e, an.PkgResources, w.typ) == nil || mustMethod(c, e, an.PkgResources, w.typ, "Write") == nil {
			continue
		}
		ops := map[string]string{"cmd.AsNumber()": ""}
		rows = append(rows,
			dtRow{fn: w.typ + ".Write", key: "addOp-recorded", why: "an add is recorded in " + w.addField + " on every path of the add operation, and only there",
				find: storeInto(w.addField), ints: ops, ref: func(a dtAtoms) bool { return a.I("cmd.AsNumber()") == a.K("addOp") }},
			dtRow{fn: w.typ + ".Write", key: "remOp-recorded", why: "a removal is recorded in " + w.remField + " on every path of the remove operation, and only there",
				find: storeInto(w.remField), ints: ops, ref: func(a dtAtoms) bool { return a.I("cmd.AsNumber()") == a.K("remOp") }})
	}
	runDecisionRows(c, e, an.PkgResources, "", rows)
}
